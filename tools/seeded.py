#!/venv/bin/python
"""Validate independently written breaking changes and run the checks against them.

usage: tools/seeded.py import /tmp/seeded_c16 [--tests]     validate + copy into seeded/<PROP>-<n>/
       tools/seeded.py run [ID ...] [--runs N] [--tier quick]   run the check(s) against every kept change

Validation (in a scratch git worktree of /repo outside /repo and /verif, removed afterwards):
  patch applies; demo passes on the clean tree and fails with the patch; (with --tests) the
  pinned test suite passes with the patch.
"""
import argparse
import json
import os
import shutil
import subprocess
import sys
import tempfile
import time

HERE = os.path.dirname(os.path.dirname(os.path.abspath(__file__)))
PY = "/venv/bin/python"


def sh(cmd, **kw):
    return subprocess.run(cmd, capture_output=True, text=True, **kw)


def worktree():
    d = tempfile.mkdtemp(prefix="seedval_", dir="/tmp")
    os.rmdir(d)
    r = sh(["git", "-C", "/repo", "worktree", "add", "-q", "--detach", d, "HEAD"])
    assert r.returncode == 0, r.stderr
    return d


def drop(d):
    sh(["git", "-C", "/repo", "worktree", "remove", "--force", d])
    shutil.rmtree(d, ignore_errors=True)


def demo(tree, path):
    env = dict(os.environ, PYTHONPATH=tree)
    r = sh([PY, path], env=env, cwd=tree, timeout=600)
    return r.returncode, (r.stdout + r.stderr)[-600:]


def cmd_import(a):
    src = a.src.rstrip("/")
    for n in sorted(os.listdir(src)):
        d = os.path.join(src, n)
        if not os.path.isdir(d) or not os.path.exists(os.path.join(d, "patch.diff")):
            continue
        meta = json.load(open(os.path.join(d, "meta.json")))
        prop = meta.get("property", "C??").upper()
        name = "%s-%s%s" % (prop, (a.tag + "-") if a.tag else "", n)
        wt = worktree()
        try:
            rc_clean, out_clean = demo(wt, os.path.join(d, "demo.py"))
            ap = sh(["git", "-C", wt, "apply", os.path.join(d, "patch.diff")])
            if ap.returncode != 0:
                print("%s: REJECTED patch does not apply: %s" % (name, ap.stderr[:200]))
                continue
            touched = sh(["git", "-C", wt, "diff", "--name-only"]).stdout.split()
            rc_patched, out_patched = demo(wt, os.path.join(d, "demo.py"))
            tests = "not run"
            if a.tests:
                t = sh([PY, "-m", "pytest", "-q", "-p", "no:cacheprovider", "-x", "-n", "8", "pysmt/test"],
                       cwd=wt, env=dict(os.environ, PYTHONPATH=wt), timeout=3600)
                tests = (t.stdout.strip().splitlines() or ["?"])[-1]
            ok = rc_clean == 0 and rc_patched != 0 and all(f.startswith("pysmt/") and "/test/" not in f for f in touched) \
                and (not a.tests or ("376 passed" in tests and "failed" not in tests))
            print("%s: %s  demo clean rc=%d patched rc=%d  tests: %s  files: %s" %
                  (name, "KEPT" if ok else "REJECTED", rc_clean, rc_patched, tests, touched))
            if not ok:
                print("   clean:", out_clean[-200:].replace("\n", " | "))
                print("   patched:", out_patched[-200:].replace("\n", " | "))
                continue
            dst = os.path.join(HERE, "seeded", name)
            os.makedirs(dst, exist_ok=True)
            shutil.copy(os.path.join(d, "patch.diff"), dst)
            shutil.copy(os.path.join(d, "demo.py"), dst)
            meta["validated"] = {"demo_on_clean_tree": "exit %d" % rc_clean, "demo_with_patch": "exit %d" % rc_patched,
                                 "baseline_tests_with_patch": tests, "files_touched": touched,
                                 "repo_commit": sh(["git", "-C", "/repo", "rev-parse", "--short", "HEAD"]).stdout.strip(),
                                 "how": "tools/seeded.py import (scratch git worktree of /repo under /tmp, removed afterwards)"}
            json.dump(meta, open(os.path.join(dst, "meta.json"), "w"), indent=1)
        finally:
            drop(wt)


def cmd_run(a):
    base = os.path.join(HERE, "seeded")
    names = sorted(os.listdir(base)) if os.path.isdir(base) else []
    if a.ids:
        names = [n for n in names if any(n.startswith(i) or n == i for i in a.ids)]
    results = []
    for name in names:
        d = os.path.join(base, name)
        if not os.path.exists(os.path.join(d, "patch.diff")):
            continue
        meta = json.load(open(os.path.join(d, "meta.json")))
        prop = meta["property"].upper()
        if meta.get("obsolete") and not a.ids:
            print("%s: obsolete (superseded by a later fix: commit), skipped" % name)
            continue
        wt = worktree()
        try:
            ap = sh(["git", "-C", wt, "apply", os.path.join(d, "patch.diff")])
            if ap.returncode != 0:
                # a later "fix:" commit rewrote the lines this change touches: run it on the tree it
                # was written and validated for
                old_tree = meta.get("validated", {}).get("repo_commit")
                ok = False
                if old_tree:
                    sh(["git", "-C", wt, "checkout", "-q", "--detach", old_tree])
                    ap = sh(["git", "-C", wt, "apply", os.path.join(d, "patch.diff")])
                    ok = ap.returncode == 0
                if not ok:
                    print("%s: patch no longer applies (%s)" % (name, ap.stderr[:120]))
                    results.append((name, "STALE"))
                    continue
                print("%s: applied to the tree it was written for (%s), not to HEAD" % (name, old_tree))
                meta["applied_to"] = old_tree
            props = a.props.split(",") if a.props else [prop]
            for p in props:
                env = dict(os.environ, VERIF_REPO=wt, VERIF_STOP_AT_FIRST="1")
                env.pop("DSIM_REEXEC", None)
                cmd = [os.path.join(HERE, "check"), p, "--tier", a.tier, "--no-evidence"]
                if a.runs:
                    cmd += ["--runs", str(a.runs)]
                t0 = time.time()
                r = sh(cmd, env=env, cwd=HERE, timeout=7200)
                dt = time.time() - t0
                sigs = [l[len("violation "):] for l in r.stdout.splitlines() if l.startswith("violation ")]
                verdict = "CAUGHT" if (r.returncode == 1 and "VIOLATION property=" in r.stdout) else \
                    ("MISSED" if r.returncode == 0 else "HARNESS-ERROR rc=%d" % r.returncode)
                print("%s by %s: %s %.0fs %s" % (name, p, verdict, dt, "; ".join(s[:140] for s in sigs[:2])))
                if verdict.startswith("HARNESS"):
                    print(r.stdout[-800:], r.stderr[-800:])
                sys.stdout.flush()
                results.append((name, p, verdict, [s.split(":")[0:3] for s in sigs[:3]]))
                meta.setdefault("checks", {})[p] = {"verdict": verdict, "tier": a.tier, "runs": a.runs,
                                                    "signatures": [s[:200] for s in sigs[:3]], "wall_s": round(dt)}
            json.dump(meta, open(os.path.join(d, "meta.json"), "w"), indent=1)
        finally:
            drop(wt)
    missed = [r for r in results if "CAUGHT" not in r]
    print("== %d runs, %d not caught" % (len(results), len(missed)))


def main():
    ap = argparse.ArgumentParser()
    sub = ap.add_subparsers(dest="cmd")
    i = sub.add_parser("import")
    i.add_argument("src")
    i.add_argument("--tests", action="store_true")
    i.add_argument("--tag", default="")
    r = sub.add_parser("run")
    r.add_argument("ids", nargs="*")
    r.add_argument("--runs", type=int)
    r.add_argument("--tier", default="quick")
    r.add_argument("--props")
    a = ap.parse_args()
    if a.cmd == "import":
        cmd_import(a)
    elif a.cmd == "run":
        cmd_run(a)
    else:
        ap.print_help()


if __name__ == "__main__":
    main()
