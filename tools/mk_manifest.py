#!/venv/bin/python
"""Regenerates /verif/MANIFEST.json from the table below (kept in one place so
the manifest stays valid and consistent with props/*)."""
import json
import os

HERE = os.path.dirname(os.path.dirname(os.path.abspath(__file__)))

NA = {
 "C01": "simplify is a pure function of the formula; quantified over inputs x interpretations only: no schedule, clock, fault or history for a simulator to control (its memo-history aspect is decided under C14).",
 "C02": "model evaluation is substitute-then-fold, a pure function of (formula, assignment); nothing for a scheduler or fault injector to vary.",
 "C03": "typing rules are a pure function of operator and argument types; universally quantified over inputs (re-attempting a failed construction is covered by C15).",
 "C05": "the substitution lemma is about a pure function of (formula, map, interpretation); the shared-substituter state aspects are decided under C14/C15.",
 "C06": "derived constructors are pure term builders; the claim is over argument values only.",
 "C07": "the claim is about the printed text for every formula, not about behaviour under stream faults or timing; no nondeterminism to control.",
 "C08": "the parser's meaning claim is over input texts; the tokenizer reads char by char so chunking cannot influence it (stream failures are exercised under C15, reply framing under C17).",
 "C09": "print-then-parse identity is a pure input-quantified round trip.",
 "C10": "normal-form rewriters and Boolean QE are pure functions of the formula (fresh-name history aspect: C14).",
 "C11": "CNF/Ackermannization equisatisfiability is input x model quantified; nothing nondeterministic to control.",
 "C12": "the analyses are pure structural functions; exactness is over inputs (cache-sharing aspect: C14).",
 "C13": "logic order/selection is a finite algebraic enumeration (exhaustive checking, not seeded simulation); detection is a pure function of the formula.",
 "C20": "work/recursion depth is a deterministic function of the input DAG; there is no fault or schedule under which to observe it.",
}

PENDING = "claimed in DESIGN.md; check under construction (moves to checks when its machinery is committed)"

CHECKS = {
 "C16": {
  "category": "exploration",
  "text": "Seeded simulation of command histories (assert / assert-soft / push n / pop n / reset / check / objectives / one-shot queries / reads) on the real IncrementalTrackingSolver over a simulated back end that keeps its own stack, and on SmtLibScript built directly and via the parser, compared step by step with an executable reference model of the SMT-LIB assertion stack. Sampling, not proof: a clean sweep is evidence over the sampled histories.",
  "design_ref": "DESIGN.md section 4 (C16)",
  "note": "Trusted: the reference stack model (dsim/stackmodel.py, ~80 lines), the blueprint evaluator used for verdict truth, the BruteSolver back-end stub following the z3 proxy convention. Formulas are sampled (Bool/BV<=2, depth<=2). The script half has no schedule dimension and rides along on the same generator.",
  "technique": "deterministic simulation: seeded op-history + model-choice tape, reference-model refinement check after every step, plan/tape minimisation and exact replay",
 },
 "C18": {
  "category": "exploration",
  "text": "Seeded simulation of the real generic optimisers (SUA and incremental mix-ins; linear and binary search; single, boxed, lexicographic, Pareto) against a simulated satisfiability peer whose model choice at every step is a scheduling decision on the tape (uniform / adversarial worst-progress / best-progress / first), embedded in user push/pop/assert histories, with partial (possibly empty) models, goal objects kept and modified by the client, Pareto iteration abandoned by the caller, and an injected 'unknown' at the k-th check (after which the stack must still be restored). Optimum, model, 'None iff unsat', Pareto front, termination bound and stack restoration are checked against brute-force enumeration on the harness's own blueprint evaluator. Sampling, not proof.",
  "design_ref": "DESIGN.md section 4 (C18)",
  "note": "Trusted: blueprint evaluator (dsim/bp.py), FNode evaluator used inside the peer (dsim/feval.py), reference stack model. Domains are finite and small (<=512 assignments); systems, goals and histories are sampled. Real-valued bisection excluded as the property says.",
  "technique": "deterministic simulation: optimiser loop vs. tape-scheduled model-choosing peer, brute-force reference oracle, bounded-liveness (solver-call budget), minimisation + exact replay",
 },
 "C17": {
  "category": "fault_enumeration",
  "text": "Seeded simulation of the real SmtLibSolver (and the factory shortcuts) over simulated pipes against a strict reference SMT-LIB solver that records every protocol breach. Fault-free family: tape-chosen read chunking (short reads inside replies), latencies in virtual time, model choice; oracles = legal stream, push/pop mirrored, replies in sync (no unread output, no misattribution, no blocking with the solver idle), verdict = brute-force truth, values/models = the solver's model. Fault family: one injected peer/pipe fault per run (unknown, (error ...), death before/after a reply, death at start-up, EIO, stall); a call may raise or block but may never return wrong data; after a one-shot (error ...) reply (the solver refused one command and is alive) the history continues under the full oracle and nothing further is tolerated. Replies may span several lines. Sampling, not proof.",
  "design_ref": "DESIGN.md section 4 (C17)",
  "note": "Trusted: the reference solver's reading of SMT-LIB 2.6 (dsim/refsolver.py, dsim/sexpr.py; calibrated by hand against cvc5 1.0 and z3 4.8 - reset-assertions drops declarations as in cvc5), the blueprint evaluator, the pipe model (writes <= PIPE_BUF atomic; writes after the child's own (exit) are discarded). Known finding F6 (reset_assertions keeps declared symbols) is recorded in known_findings.json and reported as KNOWN-FINDING.",
  "technique": "deterministic simulation with fault injection: simulated subprocess pipes + virtual clock, strict reference peer, seeded histories/chunking/faults, minimisation + exact replay",
 },
 "C19": {
  "category": "fault_enumeration",
  "text": "The real Portfolio, _run_solver and one real SmtLibSolver per member run as tasks of a deterministic kernel (baton-passing threads, virtual clock) over simulated Queue/Pipe/Process and simulated solver binaries. The tape decides every interleaving at IPC / process-control / pipe-I/O points, queue feeder delays, exact ties and near-ties of member completion times, each member's model, slow process start-up (members listed early report before later ones exist), member-specific options, a finite descriptor budget per process over long sessions, the moment the parent's garbage collector runs, and per-solve member faults (unknown, error reply, death before answering, death at start-up, stall, death right after answering) for any subset of members including all. Oracles: verdict = brute-force truth whenever a member can answer; model / joint values satisfy the assertions; no spurious exception; bounded liveness (deadlock or budget exhaustion with no stalled member is 'blocks forever'). Sampling, not proof.",
  "design_ref": "DESIGN.md section 4 (C19)",
  "note": "Trusted: kernel and IPC model (dsim/kernel.py, dsim/mp.py: synchronous terminate, fork-style descriptor inheritance, asynchronous Queue.put lost on kill), reference solver, blueprint evaluator. Children share the parent's Environment (no copy-on-write isolation). No wrong-answer fault; when the winner dies after answering, a later request may raise but must not block or return wrong data.",
  "technique": "deterministic simulation with fault injection: seeded scheduler over simulated processes/queues/pipes, virtual time, member crash/unknown/stall faults, minimisation + exact replay",
 },
 "C14": {
  "category": "exploration",
  "text": "Seeded simulation of 2-4 logical clients sharing one Environment: their scripts of public-API calls (construction, typing, simplify, substitute MGS/MSS with several maps and with supplied function interpretations, analyses, logic detection, size with each measure, HR/SMT-LIB printing and parsing, nnf/cnf/prenex/aig, Boolean qelim, FreshSymbol, EagerModel, long-lived parser / model / substitution-dict objects, factory queries around add_generic_solver) over a pool of formulas sharing sub-DAGs are interleaved by the tape at API-call granularity. Sequential specification: every result equals, modulo AC order / array-assignment order / fresh names, the result of the same call alone in a brand-new Environment; repeating a call without fresh symbols returns the identical object. Sampling, not proof.",
  "design_ref": "DESIGN.md section 4 (C14)",
  "note": "Trusted: the canonical key (dsim/canon.py) as the allowed equality; printed text is compared after re-parsing (SMT-LIB) or as a token multiset (HR), which is looser than textual equality. User symbols whose names a fresh-name template could produce are declared first in both environments.",
  "technique": "deterministic simulation: tape-scheduled interleaving of client call scripts on shared mutable state, fresh-environment reference per call, minimisation + exact replay",
 },
 "C15": {
  "category": "fault_enumeration",
  "text": "Twin-environment simulation: two environments receive the same seeded history of public-API calls (the C14 catalogue, scripts on a long-lived parser, script and tracking-solver objects); at tape-chosen points one of the natural errors the statement lists (ill-typed construction / substitution, unsupported operator via a custom node type under any service, undefined symbol, malformed / truncated / failing-stream input or solver answer, unsupported command, symbol redefinition, solver conversion error or 'unknown' inside a one-shot query) is provoked on the first twin only, at a tape-chosen position of the traversal. Every later result, including re-attempts of the same failing call on both twins, must agree modulo AC order and fresh names. Sampling, not proof.",
  "design_ref": "DESIGN.md section 4 (C15)",
  "note": "Trusted: canonical key, the BruteSolver stub. Only natural errors are injected (no asynchronous exceptions). Unobservable leftovers (ill-typed node in the table, consumed ids / fresh names) are not violations. Known finding F14 (symbol declared by a failed parse survives) is listed in known_findings.json.",
  "technique": "deterministic simulation with fault injection: twin (faulty / fault-free) runs of one seeded call history, natural-error faults at seeded traversal positions, differential oracle, minimisation + exact replay",
 },
 "C04": {
  "category": "exploration",
  "text": "Seeded simulation of 2-4 builder clients on one or two environments: builds of pool formulas through tape-chosen routes (manager methods, shortcuts, infix operators, list vs varargs, every documented constant spelling, both insertion orders of array-value assignments), re-builds, ill-typed attempts in between, simplify/substitute side effects and normalize() in both directions, with a per-environment reference dictionary structural-key -> object recomputed from the public accessors. Invariants after every step: one object per structure and one structure per object, faithful accessors, == iff identity with a stable hash, normalised copies owned by the target manager, sharing nothing with the source and round-tripping to the original object. The formula space itself is only sampled; the simulation adds the order / route / interleaving dimension ('histories').",
  "design_ref": "DESIGN.md section 4 (C04)",
  "note": "Trusted: the structural key (dsim/canon.py with ac=False) and the small model of documented constructor normalisations used for accessor faithfulness (0/1-ary collapse, Not(Not x), GE/GT and BV >/>= swaps, ToReal of an integer constant). Constructors with heavier rewriting (Div, Pow) are not generated.",
  "technique": "deterministic simulation: tape-scheduled builder clients and construction routes against a reference identity map, invariants after every step, minimisation + exact replay",
 },
}

ORDER = ["C04", "C14", "C15", "C16", "C17", "C18", "C19"]


def main():
    checks = []
    for pid in ORDER:
        if pid not in CHECKS:
            continue
        c = CHECKS[pid]
        checks.append({
            "property_id": pid,
            "quick_cmd": "./check %s --tier quick" % pid,
            "thorough_cmd": "./check %s --tier thorough" % pid,
            "evidence_file": "/verif/evidence/%s.json" % pid,
            "replay_cmd_template": "./check %s --replay {path}" % pid,
            "engine": "dsim",
            "level_claimed": {"category": c["category"], "text": c["text"], "design_ref": c["design_ref"]},
            "level_note": c["note"],
            "technique": c["technique"],
        })
    na = [{"property_id": k, "reason": v} for k, v in sorted(NA.items())]
    na += [{"property_id": k, "reason": PENDING} for k in ORDER if k not in CHECKS]
    na.sort(key=lambda x: x["property_id"])
    source_commits = []
    m = {
        "version": 1,
        "setup_cmd": "/venv/bin/python -m compileall -q dsim props >/dev/null 2>&1; /venv/bin/python -c \"import sys; sys.path[:0]=['/repo','/verif']; import pysmt, dsim.runner\"",
        "hooks": {
            "guard": "PYSMT_VERIF",
            "enable": "no source hook is needed: every seam is a module global (pysmt.solvers.portfolio.Process/Queue/Pipe, pysmt.smtlib.solver.Popen/time), a constructor argument or a mix-in point; checks import /repo's working tree (PYTHONPATH=/repo, set by ./check)",
            "baseline_off_cmd": "cd /repo && /venv/bin/python -m pytest -ra -q -p no:cacheprovider --timeout=900 --continue-on-collection-errors",
            "source_commits": source_commits,
            "add_only": True,
        },
        "engines": [{"name": "dsim", "path": "/verif/dsim", "serves_properties": [c["property_id"] for c in checks],
                     "kind_free_text": "deterministic simulator: seeded choice tape, baton-passing task kernel with virtual clock, simulated multiprocessing/subprocess, strict reference SMT-LIB solver, reference assertion-stack model, plan/tape shrinking, exact replay"}],
        "checks": checks,
        "not_applicable": na,
        "notes": "Every check: ./check <ID> --tier quick|thorough ; VERIF_SEED selects the sweep (run k uses VERIF_SEED*1000003+k). Exit 0 held / 1 VIOLATION / 2 HARNESS-ERROR. known_findings.json lists recorded and fixed findings. See DESIGN.md.",
    }
    with open(os.path.join(HERE, "MANIFEST.json"), "w") as f:
        json.dump(m, f, indent=1)


if __name__ == "__main__":
    main()
