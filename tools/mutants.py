#!/venv/bin/python
"""Sensitivity runs: apply one hand-written mutant at a time to a scratch copy
of /repo's pysmt package (outside /repo and /verif), run a check against the
copy (VERIF_REPO), report whether it raised a VIOLATION, delete the copy.

usage: tools/mutants.py [--only ID[,ID...]] [--prop CXX] [--runs N] [--tests]
Mutants live in sensitivity/mutants.json: {id, property, file, old, new, breaks}
"""
import argparse
import json
import os
import shutil
import subprocess
import sys
import tempfile
import time

HERE = os.path.dirname(os.path.dirname(os.path.abspath(__file__)))


def main():
    ap = argparse.ArgumentParser()
    ap.add_argument("--only")
    ap.add_argument("--prop")
    ap.add_argument("--runs", type=int)
    ap.add_argument("--tier", default="quick")
    ap.add_argument("--tests", action="store_true", help="also run the relevant baseline tests on the mutant")
    ap.add_argument("--jobs", type=int, default=16)
    a = ap.parse_args()
    muts = json.load(open(os.path.join(HERE, "sensitivity", "mutants.json")))
    if a.only:
        ids = a.only.split(",")
        muts = [m for m in muts if m["id"] in ids]
    if a.prop:
        muts = [m for m in muts if m["property"] == a.prop]
    results = []
    for m in muts:
        d = tempfile.mkdtemp(prefix="mut_%s_" % m["id"], dir="/tmp")
        try:
            shutil.copytree("/repo/pysmt", os.path.join(d, "pysmt"),
                            ignore=shutil.ignore_patterns("__pycache__"))
            for name in ("pytest.ini",):
                if os.path.exists("/repo/" + name):
                    shutil.copy("/repo/" + name, d)
            p = os.path.join(d, m["file"])
            s = open(p).read()
            if s.count(m["old"]) != 1:
                results.append((m["id"], "BAD-MUTANT old text occurs %d times" % s.count(m["old"])))
                print(results[-1]); continue
            open(p, "w").write(s.replace(m["old"], m["new"]))
            env = dict(os.environ, VERIF_REPO=d, VERIF_STOP_AT_FIRST="1")
            env.pop("DSIM_REEXEC", None)
            cmd = [os.path.join(HERE, "check"), m["property"], "--tier", a.tier, "--no-evidence"]
            if a.runs:
                cmd += ["--runs", str(a.runs)]
            t0 = time.time()
            r = subprocess.run(cmd, env=env, capture_output=True, text=True, timeout=3600, cwd=HERE)
            dt = time.time() - t0
            sigs = [l for l in r.stdout.splitlines() if l.startswith("violation ")]
            if r.returncode == 1 and "VIOLATION property=" in r.stdout:
                verdict = "CAUGHT"
            elif r.returncode == 0:
                verdict = "MISSED" if not m.get("equivalent") else "not-caught(equivalent-mutant)"
            else:
                verdict = "HARNESS-ERROR rc=%d" % r.returncode
            line = "%s %s %s %.0fs %s" % (m["id"], m["property"], verdict, dt,
                                          "; ".join(s[:110] for s in sigs[:2]))
            if verdict.startswith("HARNESS"):
                line += "\n" + r.stdout[-1500:] + r.stderr[-1500:]
            if a.tests and m.get("tests"):
                t = subprocess.run(["/venv/bin/python", "-m", "pytest", "-q", "-p", "no:cacheprovider", "-x"] + m["tests"],
                                   cwd=d, capture_output=True, text=True, timeout=3600,
                                   env=dict(os.environ, PYTHONPATH=d))
                line += " | tests: " + t.stdout.strip().splitlines()[-1]
            results.append((m["id"], line))
            print(line); sys.stdout.flush()
        finally:
            shutil.rmtree(d, ignore_errors=True)
    missed = [r for r in results if "MISSED" in r[1] or "HARNESS" in r[1] or "BAD" in r[1]]
    print("== %d mutants, %d not caught" % (len(results), len(missed)))
    return 1 if missed else 0


if __name__ == "__main__":
    sys.exit(main())
