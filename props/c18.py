"""C18 - optimisation returns the true optimum and restores the solver.

The generic optimisers are search loops against a peer whose answers are
under-determined (any model of the current cut may come back) and they
interleave their own push/pop/assert with the user's.  The simulated peer is
BruteSolver; which model it returns at every step is a tape decision (uniform,
adversarial worst-progress, best-progress, first).  The optimiser call is
embedded in a user history of assert/push/pop so that restoration is observed
by the following user operations.
"""
from fractions import Fraction

from dsim import bp
from dsim.bp import _signed
from dsim.runner import Violation, api, digest_of
from dsim.stackmodel import StackModel

ID = "C18"
LEVEL = "exploration"
RULE = ("one case = a user history (assert/push/pop/check) with 1-3 optimisation calls over a generated finite-domain "
        "constraint system (Bool, BV<=3 signed/unsigned, range-bounded Int), goal kinds min/max/minmax/maxmin/MaxSMT, "
        "x {SUA, incremental} x {linear, binary} x {single, boxed, lexicographic, pareto}, with the back end's model "
        "choice at every solve drawn from the tape under one of four policies. Non-trivial: some optimisation call "
        "needed >= 3 solver calls and ran over a constraint system with >= 4 models. Distinct: digest of the op "
        "sequence, configuration, per-call solver-call counts and results.")
COMPONENTS = {
    "real": ["pysmt.optimization.optimizer.ExternalOptimizerMixin / SUAOptimizerMixin / IncrementalOptimizerMixin",
             "OptSearchInterval, OptPareto, OptComparationFunctions", "pysmt.optimization.goal.*",
             "FormulaManager Min/Max/MinBV/MaxBV/SBV encodings", "IncrementalTrackingSolver, clear_pending_pop",
             "EagerModel (substitute + simplify)"],
    "stub": ["satisfiability oracle: dsim.brute.BruteSolver (exhaustive enumeration over the finite table, "
             "tape-chosen model, optional injected 'unknown')"],
}
ASSUMPTIONS = [
    "finite domains only: Bool, BV width <= 3, Int symbols restricted to a per-symbol range that is part of the "
    "back end's table (so every optimum is attained)",
    "bisection over real-valued objectives is excluded (documented as possibly non-terminating); real soft weights "
    "only with linear search",
    "after an injected 'unknown' the optimiser may raise; the assertion stack must be restored all the same",
    "termination bound per optimisation call: 4*|table| + 16 solver calls per goal",
]
TIERS = {
    "quick": {"runs": 40000, "budget_s": 60},
    "thorough": {"runs": 1200000, "budget_s": 900},
}


# ------------------------------------------------------------------ generation

def _gen_goal(tape, ctx, flavour, strategy, mode):
    kinds = [(3, "min"), (3, "max"), (1, "minmax"), (1, "maxmin")]
    if mode in ("single", "boxed"):
        kinds.append((2, "maxsmt"))
    elif tape.chance(1, 10, "unsupported.maxsmt"):
        kinds = [(1, "maxsmt")]       # MaxSMT goals are not supported by lexicographic / Pareto: must be refused
    k = tape.weighted(kinds, "goal.kind")
    if k == "maxsmt":
        n = tape.rint(1, 4, "maxsmt.n")
        real_w = strategy == "linear" and tape.chance(1, 3, "maxsmt.real")
        soft = []
        for _ in range(n):
            c = bp.gen_term(tape, bp.BOOL, 1, ctx)
            if real_w:
                w = [tape.choice([1, 2, 3, 5, -1, -3], "w.num"), tape.choice([1, 2, 3], "w.den")]
            else:
                w = tape.choice([1, 2, 3, 4, 1, 2, -1, -2, 0], "w.int")
            soft.append([c, w])
        if soft and tape.chance(1, 4, "soft.dup"):
            # the very same (clause, weight) pair given twice counts twice
            soft.append(list(soft[tape.draw(len(soft), "soft.dup.which")]))
        return {"kind": "maxsmt", "soft": soft, "real_w": real_w, "signed": False}
    nt = 1 if k in ("min", "max") else tape.weighted([(2, 1), (3, 2), (3, 3), (2, 4), (1, 5)], "goal.nterms")
    if flavour == "bv":
        w = tape.choice(ctx.bv_widths(), "goal.w")
        sort = bp.BV(w)
        signed = bool(tape.draw(2, "goal.signed"))
    else:
        sort = bp.INT
        signed = False
    ts = [bp.gen_term(tape, sort, tape.rint(0, 2, "goal.depth"), ctx) for _ in range(nt)]
    if flavour == "int" and tape.chance(1, 8, "goal.huge"):
        # objective values far beyond 2**53 (where floating point stops being exact)
        big = tape.choice([2 ** 62, -(2 ** 62), 2 ** 70 + 1], "goal.huge.k")
        ts = [["+", t_, ["int", big]] for t_ in ts]
    if nt >= 2 and tape.chance(1, 5, "goal.dupterm"):
        ts[1] = ts[0]
    return {"kind": k, "t": ts, "signed": signed}


def gen_plan(tape, cfg):
    flavour = tape.choice(["bv", "int"], "flavour")
    symbols = {}
    int_ranges = {}
    if flavour == "bv":
        nsym = tape.rint(2, 3, "nsym")
        for i in range(nsym):
            k = tape.draw(4, "symsort")
            symbols["v%d" % i] = bp.BOOL if k == 0 else bp.BV(k)
        if not any(bp.is_bv(s) for s in symbols.values()):
            symbols["v0"] = bp.BV(tape.rint(1, 3, "bvw"))
    else:
        nsym = tape.rint(2, 3, "nsym")
        for i in range(nsym):
            if tape.chance(1, 4, "boolsym"):
                symbols["v%d" % i] = bp.BOOL
            else:
                symbols["v%d" % i] = bp.INT
                lo = tape.rint(-4, 2, "int.lo")
                int_ranges["v%d" % i] = [lo, lo + tape.rint(1, 7, "int.span")]
        if not int_ranges:
            symbols["v0"] = bp.INT
            int_ranges["v0"] = [-2, 3]
    ctx = bp.GenCtx(symbols, bv=(flavour == "bv"), ints=(flavour == "int"))
    mixin = tape.choice(["sua", "incr"], "mixin")
    ops = []
    depth = 0
    nopt = 0
    n = tape.rint(3, 12, "nops")
    for j in range(n):
        last = (j == n - 1)
        k = tape.weighted([(4, "assert"), (2, "push"), (2, "pop"), (1, "check"), (4, "optimize"), (2, "is_sat")], "op")
        if last and nopt == 0:
            k = "optimize"
        if k == "assert":
            ops.append({"op": "assert", "f": bp.gen_term(tape, bp.BOOL, 2, ctx)})
        elif k == "push":
            lv = tape.weighted([(4, 1), (1, 2)], "push.n")
            ops.append({"op": "push", "n": lv})
            depth += lv
        elif k == "pop":
            lv = min(depth, tape.weighted([(4, 1), (1, 2)], "pop.n"))
            if lv == 0:
                ops.append({"op": "push", "n": 1})
                depth += 1
            else:
                ops.append({"op": "pop", "n": lv})
                depth -= lv
        elif k == "check":
            ops.append({"op": "check"})
        elif k == "is_sat":
            # a one-shot query leaves a pop pending: the optimiser's own pushes must cope with it
            ops.append({"op": "is_sat", "f": bp.gen_term(tape, bp.BOOL, 1, ctx)})
        else:
            nopt += 1
            mode = tape.weighted([(4, "single"), (2, "boxed"), (3, "lex"), (3, "pareto")], "mode")
            strategy = tape.choice(["linear", "binary"], "strategy")
            ng = 1 if mode == "single" else tape.rint(1, 3, "ngoals")
            goals = [_gen_goal(tape, ctx, flavour, strategy, mode) for _ in range(ng)]
            o = {"op": "optimize", "mode": mode, "strategy": strategy, "goals": goals}
            if mode == "pareto" and tape.chance(1, 4, "pareto.stop"):
                o["stop_after"] = tape.choice([1, 2, 1, -1], "pareto.stop.k")
            prev = [j for j, po in enumerate(ops) if po["op"] == "optimize" and po["mode"] in ("single", "boxed")
                    and po["goals"][0]["kind"] == "maxsmt" and not po["goals"][0]["real_w"]
                    and "reuse" not in po]
            if prev and mode in ("single", "boxed") and tape.chance(1, 2, "reuse.goal"):
                # the client keeps the MaxSMT goal object of an earlier call, adds soft clauses to it
                # and optimises again
                j = tape.choice(prev, "reuse.which")
                base = ops[j]["goals"][0]
                extra = [[bp.gen_term(tape, bp.BOOL, 1, ctx), tape.choice([1, 2, 3, -1], "reuse.w")]
                         for _ in range(tape.rint(1, 2, "reuse.n"))]
                o["reuse"] = j
                o["goals"] = [dict(base, soft=base["soft"] + extra, real_w=False,
                                   soft_extra=extra)]
                o["strategy"] = ops[j]["strategy"]
            prevbv = [j for j, po in enumerate(ops) if po["op"] == "optimize" and po["mode"] == "single"
                      and po["goals"][0]["kind"] in ("min", "max") and flavour == "bv" and "reuse" not in po and "flip" not in po]
            if "reuse" not in o and prevbv and mode == "single" and tape.chance(1, 3, "flip.goal"):
                # the client keeps a min/max goal object over a bit-vector term, flips its public
                # `signed` flag and optimises the same object again
                j = tape.choice(prevbv, "flip.which")
                base = ops[j]["goals"][0]
                o["flip"] = j
                o["goals"] = [dict(base, signed=not base["signed"])]
            ops.append(o)
    faults = {}
    if tape.chance(1, 6, "faulty?"):
        if tape.chance(1, 3, "fault.push"):
            faults["push_fails_in_opt"] = [tape.rint(2, 9, "pushfail.k")]
        else:
            faults["unknown_at"] = [tape.rint(1, 12, "unknown.k")]
    return {"flavour": flavour, "symbols": symbols, "int_ranges": int_ranges, "mixin": mixin,
            "policy": tape.choice(["uniform", "worst", "best", "first"], "policy"),
            "assumption_style": tape.choice(["z3", "native"], "assumption_style"),
            "model_scope": tape.choice(["all", "all", "asserted"], "model_scope") if flavour == "bv" else "all",
            "faults": faults, "ops": ops}


def shrink_plan(plan):
    if plan.get("faults"):
        p = dict(plan); p["faults"] = {}
        yield p
    for i, o in enumerate(plan["ops"]):
        def rep(new):
            p = dict(plan)
            p["ops"] = plan["ops"][:i] + [new] + plan["ops"][i + 1:]
            return p
        if "f" in o:
            for c in bp.shrink_candidates(o["f"]):
                yield rep(dict(o, f=c))
        if o["op"] in ("push", "pop") and o["n"] > 1:
            yield rep(dict(o, n=o["n"] - 1))
        if o["op"] == "optimize":
            if len(o["goals"]) > 1:
                for j in range(len(o["goals"])):
                    yield rep(dict(o, goals=o["goals"][:j] + o["goals"][j + 1:]))
            for j, g in enumerate(o["goals"]):
                def repg(ng):
                    return rep(dict(o, goals=o["goals"][:j] + [ng] + o["goals"][j + 1:]))
                if g["kind"] == "maxsmt":
                    if len(g["soft"]) > 1:
                        for q in range(len(g["soft"])):
                            yield repg(dict(g, soft=g["soft"][:q] + g["soft"][q + 1:]))
                    for q, (c, w) in enumerate(g["soft"]):
                        for c2 in bp.shrink_candidates(c):
                            yield repg(dict(g, soft=g["soft"][:q] + [[c2, w]] + g["soft"][q + 1:]))
                else:
                    if len(g["t"]) > 1:
                        for q in range(len(g["t"])):
                            yield repg(dict(g, t=g["t"][:q] + g["t"][q + 1:]))
                    for q, t in enumerate(g["t"]):
                        for c2 in bp.shrink_candidates(t):
                            yield repg(dict(g, t=g["t"][:q] + [c2] + g["t"][q + 1:]))
    for pol in ("first",):
        if plan["policy"] != pol:
            yield dict(plan, policy=pol)


def _goal_str(g):
    if g["kind"] == "maxsmt":
        return "maxsmt{%s}%s" % (", ".join("%s:%s" % (bp.pretty(c), w) for c, w in g["soft"]),
                                  " real" if g["real_w"] else "")
    return "%s%s(%s)" % (g["kind"], " signed" if g["signed"] else "", ", ".join(bp.pretty(t) for t in g["t"]))


def describe(plan):
    out = ["symbols %s ranges %s mixin=%s policy=%s assumptions=%s faults=%s" %
           (plan["symbols"], plan["int_ranges"], plan["mixin"], plan["policy"],
            plan["assumption_style"], plan["faults"])]
    for o in plan["ops"]:
        if o["op"] in ("assert", "is_sat"):
            out.append(o["op"] + " " + bp.pretty(o["f"]))
        elif o["op"] in ("push", "pop"):
            out.append("%s %d" % (o["op"], o["n"]))
        elif o["op"] == "optimize":
            out.append("optimize %s/%s %s" % (o["mode"], o["strategy"], "; ".join(_goal_str(g) for g in o["goals"])))
        else:
            out.append(o["op"])
    return out


# ------------------------------------------------------------------ truth (blueprints only)

def _w(w):
    return Fraction(w[0], w[1]) if isinstance(w, list) else w


def cost_of(g, a):
    if g["kind"] == "maxsmt":
        return sum((_w(w) for c, w in g["soft"] if bp.evaluate(c, a)), 0)
    vals = []
    for t in g["t"]:
        v = bp.evaluate(t, a)
        s = bp.sort_of(t)
        if bp.is_bv(s) and g["signed"]:
            v = _signed(v, s[1])
        vals.append(v)
    if g["kind"] in ("min", "max"):
        return vals[0]
    return max(vals) if g["kind"] == "minmax" else min(vals)


def is_min(g):
    return g["kind"] in ("min", "minmax")


def best(g, models):
    cs = [cost_of(g, a) for a in models]
    return min(cs) if is_min(g) else max(cs)


def pareto_front(goals, models):
    vecs = {tuple(cost_of(g, a) for g in goals) for a in models}
    norm = lambda v: tuple(c if is_min(g) else -c for g, c in zip(goals, v))
    front = set()
    for v in vecs:
        nv = norm(v)
        dominated = False
        for u in vecs:
            if u == v:
                continue
            nu = norm(u)
            if all(x <= y for x, y in zip(nu, nv)) and any(x < y for x, y in zip(nu, nv)):
                dominated = True
                break
        if not dominated:
            front.add(v)
    return front


# ------------------------------------------------------------------ execution

class NonTermination(BaseException):
    pass


def _build_goal(g, env):
    from pysmt.optimization.goal import (MinimizationGoal, MaximizationGoal, MinMaxGoal,
                                         MaxMinGoal, MaxSMTGoal)
    if g["kind"] == "maxsmt":
        goal = MaxSMTGoal(real_weights=bool(g["real_w"]))
        for c, w in g["soft"]:
            goal.add_soft_clause(bp.build(c, env), _w(w))
        return goal
    ts = [bp.build(t, env) for t in g["t"]]
    if g["kind"] == "min":
        return MinimizationGoal(ts[0], g["signed"])
    if g["kind"] == "max":
        return MaximizationGoal(ts[0], g["signed"])
    if g["kind"] == "minmax":
        return MinMaxGoal(ts, g["signed"])
    return MaxMinGoal(ts, g["signed"])


def _decode_cost(g, c):
    if not c.is_constant():
        raise Violation("C18:cost-not-constant", "returned cost %s is not a constant" % c)
    v = c.constant_value()
    if c.is_bv_constant() and g["signed"]:
        v = _signed(v, c.bv_width())
    return v


def execute(plan, tape):
    from pysmt.environment import reset_env
    from pysmt.logics import QF_BV, QF_LIA
    from pysmt.exceptions import SolverReturnedUnknownResultError, InternalSolverError
    from dsim.brute import BruteSUAOptimizer, BruteIncrementalOptimizer, Table

    env = reset_env()
    mgr = env.formula_manager
    symbols = plan["symbols"]
    ranges = {k: tuple(v) for k, v in plan["int_ranges"].items()}
    doms = {}
    for n, s in symbols.items():
        mgr.Symbol(n, bp.to_pysmt_type(s, env))
        if s == bp.INT:
            lo, hi = ranges.get(n, (-2, 2))
            ranges[n] = (lo, hi)
            doms[n] = list(range(lo, hi + 1))
        else:
            doms[n] = bp.domain(s)
    table = Table(doms)
    cls = BruteSUAOptimizer if plan["mixin"] == "sua" else BruteIncrementalOptimizer
    faults = {k: set(v) for k, v in plan.get("faults", {}).items()}
    solver = cls(env, QF_BV if plan["flavour"] == "bv" else QF_LIA, table=table, tape=tape,
                 policy=plan["policy"], assumption_style=plan["assumption_style"], fault_plan=faults,
                 model_scope=plan.get("model_scope", "all"))
    budget_per_goal = 4 * table.n + 16 + 200      # (+ bisection steps over huge objective values)
    state = {"limit": None}
    orig_solve = solver._solve

    def guarded_solve(assumptions=None):
        if state["limit"] is not None and solver.b_counts["solve"] >= state["limit"]:
            raise NonTermination()
        return orig_solve(assumptions=assumptions)
    solver._solve = guarded_solve

    model = StackModel()
    tok_f, tok_bp = {}, {}
    probes = {}
    trace = []
    nontrivial = False
    faulted = False
    flip_objs = {}

    def probe(n):
        probes[n] = probes.get(n, 0) + 1

    def live_bps():
        return [tok_bp[i] for i in model.live_assertions()]

    def all_models():
        return bp.models(live_bps(), symbols, int_ranges=ranges)

    def observe(where):
        got = api("solver.assertions", lambda: list(solver.assertions))
        want = [tok_f[i] for i in model.live_assertions()]
        if len(got) != len(want) or any(g is not w for g, w in zip(got, want)):
            raise Violation("C18:restore:assertions",
                            "after %s: solver.assertions = %s, expected %s" %
                            (where, [str(g) for g in got][:6], [str(w) for w in want][:6]))
        back = solver.b_live()
        if len(back) != len(want) or any(g is not w for g, w in zip(back, want)):
            raise Violation("C18:restore:backend-assertions",
                            "after %s: back end holds %s, expected %s" %
                            (where, [str(g) for g in back][:6], [str(w) for w in want][:6]))
        if solver.b_depth() != model.depth:
            raise Violation("C18:restore:depth", "after %s: back-end stack depth %d, user depth %d" %
                            (where, solver.b_depth(), model.depth))

    def check_model(m, goals_costs, where):
        a = {}
        for n, s in symbols.items():
            v = api("model.get_value", m.get_value, mgr.get_symbol(n))
            a[n] = v.constant_value()
        for f in live_bps():
            if not bp.evaluate(f, a):
                raise Violation("C18:model-violates-assertion",
                                "%s: returned model %s falsifies %s" % (where, a, bp.pretty(f)))
        for g, c in goals_costs:
            mc = cost_of(g, a)
            if mc != c:
                raise Violation("C18:model-cost-mismatch",
                                "%s: model %s gives %s cost %s but %s was returned" %
                                (where, a, _goal_str(g), mc, c))

    ops = list(plan["ops"])
    depth = 0
    goal_objs = {}      # op index -> the MaxSMTGoal object used there (clients may keep and extend it)
    goal_bps = {}
    for i, o in enumerate(ops):
        k = o["op"]
        if k == "assert":
            f = bp.build(o["f"], env)
            tok_f[i], tok_bp[i] = f, o["f"]
            api("add_assertion", solver.add_assertion, f)
            model.assert_(i)
        elif k == "push":
            api("push", solver.push, o["n"])
            model.push(o["n"])
        elif k == "pop":
            nlev = min(o["n"], model.depth)
            if nlev == 0:
                continue
            api("pop", solver.pop, nlev)
            model.pop(nlev)
        elif k == "is_sat":
            try:
                got = api("is_sat", solver.is_sat, bp.build(o["f"], env), allowed=(SolverReturnedUnknownResultError,))
            except SolverReturnedUnknownResultError:
                faulted = True
                break
            want = len(bp.models(live_bps() + [o["f"]], symbols, int_ranges=ranges)) > 0
            if got != want:
                raise Violation("C18:verdict", "is_sat() = %s, truth %s" % (got, want))
            probe("oneshot_before_next_op")
            trace.append(("is_sat", got))
            continue            # no read of .assertions: the pop stays pending for the next operation
        elif k == "check":
            try:
                got = api("solve", solver.solve, allowed=(SolverReturnedUnknownResultError,))
            except SolverReturnedUnknownResultError:
                faulted = True
                break
            want = len(all_models()) > 0
            if got != want:
                raise Violation("C18:verdict", "solve() = %s, truth %s" % (got, want))
        elif k == "optimize":
            goals = o["goals"]
            mode, strategy = o["mode"], o["strategy"]
            if mode in ("lex", "pareto") and any(g["kind"] == "maxsmt" for g in goals):
                # documented: refused with GoalNotSupportedError - and the solver is left as it was
                from pysmt.exceptions import GoalNotSupportedError
                pg = [_build_goal(dict(g, real_w=False, soft=[[c_, (w_ if not isinstance(w_, list) else w_[0])] for c_, w_ in g["soft"]])
                                  if g["kind"] == "maxsmt" else g, env) for g in goals]
                try:
                    if mode == "lex":
                        api("lexicographic_optimize(maxsmt)", solver.lexicographic_optimize, pg, strategy=strategy,
                            allowed=(GoalNotSupportedError,))
                    else:
                        api("pareto_optimize(maxsmt)", lambda: list(solver.pareto_optimize(pg)),
                            allowed=(GoalNotSupportedError,))
                    raise Violation("C18:unsupported-goal-accepted", "%s optimisation accepted a MaxSMT goal" % mode)
                except GoalNotSupportedError:
                    probe("maxsmt_refused_by_" + mode)
                observe("refused %s optimisation" % mode)
                continue
            if strategy == "binary":
                goals = [dict(g, real_w=False, soft=[[c, (w if not isinstance(w, list) else w[0])] for c, w in g["soft"]])
                         if g["kind"] == "maxsmt" else g for g in goals]
            reuse_from = goal_objs.get(o.get("reuse")) if o.get("reuse") is not None else None
            if reuse_from is not None and goals and goals[0]["kind"] == "maxsmt" and "soft_extra" in goals[0] \
                    and not any(isinstance(w_, list) for _, w_ in goals[0]["soft"]):
                g_obj = reuse_from
                for c_, w_ in goals[0]["soft_extra"]:
                    g_obj.add_soft_clause(bp.build(c_, env), _w(w_))
                # the blueprint of the goal is what the object now holds
                goals = [dict(goals[0], soft=goal_bps[o["reuse"]] + goals[0]["soft_extra"])]
                goal_bps[o["reuse"]] = list(goals[0]["soft"])     # mirrors what the object now holds
                pgoals = [g_obj]
                probe("maxsmt_goal_object_reused")
            elif o.get("flip") is not None and o["flip"] in flip_objs:
                g_obj = flip_objs[o["flip"]]
                g_obj.signed = goals[0]["signed"]
                pgoals = [g_obj]
                probe("goal_object_reused_with_flipped_signedness")
            else:
                pgoals = [_build_goal(g, env) for g in goals]
            if goals and mode == "single" and goals[0]["kind"] in ("min", "max") and o.get("flip") is None:
                flip_objs[i] = pgoals[0]
            if goals and goals[0]["kind"] == "maxsmt" and mode in ("single", "boxed") and reuse_from is None:
                goal_objs[i] = pgoals[0]
                goal_bps[i] = list(goals[0]["soft"])
            models = all_models()
            # adversary: progress of a row w.r.t. the first goal
            g0 = goals[0]
            try:
                col = solver.vec.column(pgoals[0].term())
                if g0["kind"] != "maxsmt" and g0["signed"] and bp.is_bv(bp.sort_of(g0["t"][0])):
                    wdt = bp.sort_of(g0["t"][0])[1]
                    col = [_signed(v, wdt) for v in col]
                solver.adversary_key = (lambda r, col=col: -col[r]) if is_min(g0) else (lambda r, col=col: col[r])
            except Exception:
                solver.adversary_key = None
            s0 = solver.b_counts["solve"]
            state["limit"] = s0 + budget_per_goal * len(goals) * (2 if mode == "pareto" else 1) \
                * (max(1, len(pareto_front(goals, models))) if mode == "pareto" else 1)
            where = "optimize(%s/%s/%s)" % (plan["mixin"], mode, strategy)
            if plan.get("faults", {}).get("push_fails_in_opt"):
                # the back end refuses the k-th push made during this optimisation
                solver.fault_plan["push_fails_at"] = {solver.b_counts["push"] + plan["faults"]["push_fails_in_opt"][0]}
            try:
                if mode == "single":
                    res = api(where, solver.optimize, pgoals[0], strategy=strategy,
                              allowed=(SolverReturnedUnknownResultError, InternalSolverError))
                elif mode == "boxed":
                    res = api(where, solver.boxed_optimize, pgoals, strategy=strategy,
                              allowed=(SolverReturnedUnknownResultError, InternalSolverError))
                elif mode == "lex":
                    res = api(where, solver.lexicographic_optimize, pgoals, strategy=strategy,
                              allowed=(SolverReturnedUnknownResultError, InternalSolverError))
                else:
                    stop_after = o.get("stop_after")

                    def consume():
                        # the caller may stop iterating early (the generator object is then dropped)
                        out_ = []
                        if stop_after == -1:
                            # ... or even ask for the iterator and never start it
                            it_ = solver.pareto_optimize(pgoals)
                            del it_
                            probe("pareto_iterator_never_started")
                            return out_
                        for item in solver.pareto_optimize(pgoals):
                            out_.append(item)
                            if stop_after and len(out_) >= stop_after:
                                probe("pareto_iteration_abandoned")
                                break
                        return out_
                    res = api(where, consume, allowed=(SolverReturnedUnknownResultError, InternalSolverError))
            except (SolverReturnedUnknownResultError, InternalSolverError):
                solver.fault_plan.pop("push_fails_at", None)
                # the oracle gave up in the middle of the search: the optimiser may report that,
                # but the assertion stack must be as it was before the call
                probe("optimiser_raised_unknown")
                state["limit"] = None
                observe(where + " (solver answered unknown)")
                if solver.b_depth() != model.depth:
                    raise Violation("C18:restore:depth", "after %s raised (unknown): back-end stack depth %d, user depth %d" %
                                    (where, solver.b_depth(), model.depth))
                trace.append(("unknown", mode))
                continue
            except NonTermination:
                raise Violation("C18:non-termination",
                                "%s made more than %d solver calls (table has %d rows, %d models)" %
                                (where, state["limit"] - s0, table.n, len(models)))
            finally:
                state["limit"] = None
                solver.fault_plan.pop("push_fails_at", None)
            ncalls = solver.b_counts["solve"] - s0
            # ---- oracles 1-3
            if mode == "single":
                if (res is None) != (not models):
                    raise Violation("C18:none-iff-unsat", "%s returned %s with %d models" %
                                    (where, "None" if res is None else "a result", len(models)))
                if res is not None:
                    m, c = res
                    cv = _decode_cost(goals[0], c)
                    want = best(goals[0], models)
                    if cv != want:
                        raise Violation("C18:optimum", "%s returned cost %s, true optimum %s for %s" %
                                        (where, cv, want, _goal_str(goals[0])))
                    check_model(m, [(goals[0], cv)], where)
                    trace.append(("single", str(cv), ncalls))
            elif mode == "boxed":
                if (res is None) != (not models):
                    raise Violation("C18:none-iff-unsat", "%s returned %s with %d models" %
                                    (where, "None" if res is None else "a result", len(models)))
                if res is not None:
                    if len(res) != len({id(p) for p in pgoals}):
                        raise Violation("C18:boxed-missing-goal", "%s returned %d entries for %d goals" %
                                        (where, len(res), len(pgoals)))
                    for g, pg in zip(goals, pgoals):
                        m, c = res[pg]
                        cv = _decode_cost(g, c)
                        want = best(g, models)
                        if cv != want:
                            raise Violation("C18:optimum", "%s returned cost %s, true optimum %s for %s" %
                                            (where, cv, want, _goal_str(g)))
                        check_model(m, [(g, cv)], where)
                    trace.append(("boxed", len(res), ncalls))
            elif mode == "lex":
                if (res is None) != (not models):
                    raise Violation("C18:none-iff-unsat", "%s returned %s with %d models" %
                                    (where, "None" if res is None else "a result", len(models)))
                if res is not None:
                    m, vals = res
                    cur = models
                    want = []
                    for g in goals:
                        b = best(g, cur)
                        want.append(b)
                        cur = [a for a in cur if cost_of(g, a) == b]
                    got = [_decode_cost(g, c) for g, c in zip(goals, vals)]
                    if got != want:
                        raise Violation("C18:lex-optimum", "%s returned %s, true lexicographic optimum %s for %s" %
                                        (where, got, want, [_goal_str(g) for g in goals]))
                    check_model(m, list(zip(goals, got)), where)
                    if len(goals) > 1 and len({tuple(cost_of(g, a) for g in goals[1:]) for a in
                                               [a for a in models if cost_of(goals[0], a) == want[0]]}) > 1:
                        probe("lex_second_goal_constrained")
                    trace.append(("lex", str(got), ncalls))
            else:
                want = pareto_front(goals, models)
                got = []
                for m, vals in res:
                    v = tuple(_decode_cost(g, c) for g, c in zip(goals, vals))
                    check_model(m, list(zip(goals, v)), where)
                    got.append(v)
                if len(set(got)) != len(got):
                    raise Violation("C18:pareto-duplicate", "%s yielded %s" % (where, got))
                if o.get("stop_after") == -1:
                    pass
                elif o.get("stop_after") and len(got) >= o["stop_after"] and len(want) >= len(got):
                    # iteration abandoned: what was yielded so far belongs to the front
                    if not set(got) <= want:
                        raise Violation("C18:pareto-front", "%s yielded %s (then abandoned), true front %s for %s" %
                                        (where, sorted(got), sorted(want), [_goal_str(g) for g in goals]))
                elif set(got) != want:
                    raise Violation("C18:pareto-front", "%s yielded %s, true front %s for %s" %
                                    (where, sorted(got), sorted(want), [_goal_str(g) for g in goals]))
                if len(want) >= 3:
                    probe("pareto_front_size>=3")
                trace.append(("pareto", len(got), ncalls))
            if ncalls >= 3 and len(models) >= 4:
                nontrivial = True
            if plan["policy"] == "worst" and solver.adversary_key is not None:
                probe("adversarial_policy_used")
            if not models:
                probe("unsat_system")
            for g in goals:
                if g["kind"] != "maxsmt" and bp.is_bv(bp.sort_of(g["t"][0])) and models:
                    b = best(g, models)
                    wdt = bp.sort_of(g["t"][0])[1]
                    if g["signed"] and b < 0:
                        probe("signed_bv_negative_optimum")
                    if not g["signed"] and b >> (wdt - 1):
                        probe("unsigned_bv_msb_set")
                    lo, hi = (-(1 << (wdt - 1)), (1 << (wdt - 1)) - 1) if g["signed"] else (0, (1 << wdt) - 1)
                    if b in (lo, hi):
                        probe("optimum_at_domain_edge")
                if g["kind"] == "maxsmt" and models and best(g, models) == 0:
                    probe("maxsmt_all_soft_false")
            # ---- oracle 4: restoration, observed now and by the following user ops
            observe(where)      # (reading the assertions also resolves a pop left pending by an earlier is_sat)
            if solver.b_depth() != model.depth:
                raise Violation("C18:restore:depth", "after %s: back-end stack depth %d, user depth %d" %
                                (where, solver.b_depth(), model.depth))
            continue
        if tape.chance(1, 2, "observe"):
            observe("%s@%d" % (k, i))
        trace.append((k, o.get("n"), model.depth))
    if not faulted:
        observe("end")
        if solver.b_illegal:
            raise Violation("C18:backend-illegal", "back end saw %s" % solver.b_illegal[:3])
    return {"digest": digest_of((plan["mixin"], plan["policy"], trace)), "nontrivial": nontrivial,
            "probes": probes, "faults": dict(solver.faults_fired), "sim_time": 0.0,
            "steps": solver.b_counts["solve"], "sample": {"ops": describe(plan), "trace": [list(map(str, t)) for t in trace]}}
