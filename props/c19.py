"""C19 - portfolio answer is independent of the race and never blocks forever.

The real Portfolio, its child function _run_solver, the real SmtLibSolver of
every member and the factory run inside the simulation kernel: one task per
member process, simulated Queue / Pipe / Process, simulated solver binaries
with per-member reply delays in virtual time.  The tape decides every
scheduling choice at every IPC / process-control / pipe-I/O pre-emption point,
the feeder delay of every Queue.put, exact ties of the virtual clock, which
model each member holds, and the per-member faults fixed at run start.
"""
from dsim import bp
from dsim.kernel import Kernel, SimDeadlock
from dsim.proc import World, Seams as ProcSeams
from dsim.mp import Net, Seams as MpSeams
from dsim.runner import Violation, api, digest_of
from dsim.stackmodel import StackModel

ID = "C19"
LEVEL = "fault_enumeration"
GC_CONTROL = True
RULE = ("one case = a history of 3-10 operations (add_assertion, push/pop, solve, is_sat/is_valid/is_unsat, "
        "get_model, get_values, reset_assertions, exit + new portfolio, factory shortcut with portfolio=) on a real "
        "Portfolio of 2-4 members, each member a real SmtLibSolver in its own simulated process talking to a "
        "reference solver with per-solve reply delays drawn from {0, d, d, d+eps, 10d, inf} and a per-solve fault "
        "(none / unknown / error reply / death before answering / death at start-up / stall) for any subset of "
        "members, under a tape-chosen schedule. Non-trivial: >= 1 solve in which >= 2 members were still alive "
        "when the winner was dequeued and the scheduler made >= 1 choice among >= 2 runnable tasks. Distinct: "
        "digest of the schedule (task chosen at every step) and results.")
COMPONENTS = {
    "real": ["pysmt.solvers.portfolio.Portfolio (all methods) and _run_solver", "IncrementalTrackingSolver",
             "Solver.is_sat/is_valid/is_unsat + clear_pending_pop", "Factory (add_generic_solver, Solver(name=), "
             "is_sat(..., portfolio=))", "SmtLibSolver as every member, SmtLibCommand.serialize, SmtDagPrinter, "
             "interactive SmtLibParser", "EagerModel", "FormulaManager.normalize", "pickle of FNodes and exceptions"],
    "stub": ["multiprocessing.Process/Queue/Pipe -> dsim.mp (tasks of the simulation kernel)",
             "subprocess.Popen, time -> dsim.proc", "member solver binaries -> dsim.refsolver profiles"],
}
ASSUMPTIONS = [
    "children share the parent's Environment (fork copy-on-write isolation is not modelled); sound here because "
    "children are pre-empted only inside simulated I/O where no environment-level walker is active",
    "terminate() is synchronous: a killed process performs no further simulated side effect",
    "members agree (there is no wrong-answer fault); a winner that dies after answering is not injected",
    "a stalled member is still 'running': blocking forever is a violation only when every member has failed or exited",
    "get_value is only asked for terms over symbols the surviving member knows",
]
TIERS = {
    "quick": {"runs": 6000, "budget_s": 75},
    "thorough": {"runs": 200000, "budget_s": 900},
}

NAMES = ["a", "b", "c", "x y", ".def_0"]
ONESHOT = ("is_sat", "is_valid", "is_unsat")
FAULTS = ["unknown", "error", "die_before", "die_at_start", "die_after", "stall"]
# separate: the member answers the query and dies when first asked for a value


def _member_profile(tape, d, faulty, all_fail=False):
    delay = tape.choice([0.0, d, d, d + 1e-6, 10 * d, d], "delay")
    pf = {"check_delay": delay, "latency": tape.choice([0.0, 0.0, 1e-4], "latency"),
          "short_reads": tape.chance(1, 3, "short_reads"),
          "model_policy": tape.choice(["uniform", "first", "last"], "model_policy"),
          "value_delay": tape.choice([0.0, 0.0, 0.0, 6.5, 40.0], "value_delay")}
    if faulty and tape.chance(1, 4, "member.stuck_at_exit"):
        # the solver binary does not leave by itself after (exit): it has to be terminated
        pf["stuck_at_exit"] = True
    if faulty and tape.chance(1, 8, "member.dies_after_answer"):
        # the statement promises no value from a survivor that died; the call must still not block forever
        pf["die_before_name"] = ["get-value", 1]
        pf["fault_after_answer"] = True
        return pf
    if faulty and (all_fail or tape.chance(1, 2, "member.faulty")):
        fk = tape.choice(FAULTS if not all_fail else FAULTS[:5], "fault.kind")
        pf["fault"] = fk
        if fk == "unknown":
            pf["unknown_at_check"] = [1]
        elif fk == "error":
            # never after the member has answered: the statement promises nothing
            # about a winner that fails later
            pf["error_at_name"] = [tape.choice(["check-sat", "assert", "declare-fun", "set-logic"], "error.name"), 1]
        elif fk == "die_before":
            pf["die_before_name"] = [tape.choice(["check-sat", "assert", "declare-fun", "set-logic",
                                                  "set-option"], "die.name"), 1]
        elif fk == "die_at_start":
            pf["die_at_start"] = True
        elif fk == "die_after":
            # the solver process exits between two commands (before the member asks check-sat)
            pf["die_after_name"] = [tape.choice(["assert", "assert", "declare-fun", "set-logic"], "dieafter.name"), 1]
        elif fk == "stall":
            pf["check_delay"] = float("inf")
    return pf


def gen_plan(tape, cfg):
    family = tape.weighted([(3, "fault-free"), (2, "faulty")], "family")
    nmem = tape.rint(2, 4, "members")
    nsym = tape.rint(2, 4, "nsym")
    symbols = {}
    for n in NAMES[:nsym]:
        k = tape.draw(3, "symsort")
        symbols[n] = bp.BOOL if k == 0 else bp.BV(k)
    ctx = bp.GenCtx(symbols, bv=True)
    kinds = [(5, "assert"), (2, "push"), (2, "pop"), (6, "solve"), (1, "reset")]
    for w, k in [(3, "get_model"), (3, "get_values"), (2, "is_sat"), (1, "is_valid"), (1, "is_unsat"),
                 (1, "renew"), (1, "shortcut"), (1, "gc")]:
        if tape.chance(3, 4, "enable." + k):
            kinds.append((w, k))
    n = tape.rint(3, 10, "nops")
    long_session = tape.chance(1, 50, "long_session")
    if long_session:
        # one portfolio used for a long time: many push / assert / solve / pop cycles, no faults.
        # Whatever is kept per query (descriptors, processes) adds up against the descriptor limit.
        family = "fault-free"
        nmem = 3
        n = 4 * tape.rint(35, 50, "long.cycles")
    ops = []
    nsolves = 0
    for j in range(n):
        k = tape.weighted(kinds, "op")
        if j == n - 1 and nsolves == 0:
            k = "solve"
        if long_session:
            k = ["push", "assert", "solve", "pop"][j % 4]
        o = {"op": k}
        if k == "assert" or k in ONESHOT or k == "shortcut":
            o["f"] = bp.gen_term(tape, bp.BOOL, 2, ctx)
            if k == "shortcut":
                o["kind"] = tape.choice(["is_sat", "is_valid", "is_unsat"], "shortcut.kind")
        elif k in ("push", "pop"):
            o["n"] = tape.weighted([(5, 1), (2, 2)], "levels")
        if k in ("get_model", "get_values"):
            # the user may wait before asking: slower members then finish meanwhile
            o["pause"] = tape.choice([0.0, 0.0, 30.0], "pause")
        if k == "get_values":
            o["many"] = tape.choice([0, 0, 4, 7, 200], "get_values.many")
            # only some of the symbols are asked now; a later op (after another solve, possibly won by
            # another member with another model) asks all of them and checks them together
            o["partial"] = tape.chance(1, 3, "get_values.partial")
            if o["partial"]:
                ops.append(o)
                ops.append({"op": "solve"})
                nsolves += 1
                o = {"op": "get_values", "pause": tape.choice([0.0, 30.0], "pause2"), "many": 0, "partial": False}
        if k in ("solve", "shortcut") or k in ONESHOT:
            nsolves += 1
        ops.append(o)
    # one profile per member per solve (incarnation)
    d = tape.choice([1.0, 0.5, 2.0], "d")
    profiles = []
    all_fail_at = None
    if family == "faulty" and tape.chance(1, 4, "all_fail?"):
        all_fail_at = tape.draw(max(1, nsolves), "all_fail.at")
    for m in range(nmem):
        lst = []
        for si in range(nsolves + 1):
            lst.append(_member_profile(tape, d, family == "faulty", all_fail=(all_fail_at == si)))
        profiles.append(lst)
    member_opts = [tape.choice([None, None, {"random_seed": 7}, {"generate_models": True},
                                {"solver_options": {":only-member": -1}}], "member.opts")
                   for _ in range(nmem)]
    for j, mo_ in enumerate(member_opts):
        if mo_ and "solver_options" in mo_:
            # a solver-specific option: every other member answers 'unsupported' to it
            member_opts[j] = {"solver_options": {":only-member": j}}
    # the documented usage [("s", {...}), ("s", {...})]: the same solver listed twice with different options
    member_names = ["m%d" % m for m in range(nmem)]
    if tape.chance(1, 4, "duplicate.names"):
        j = tape.rint(1, nmem - 1, "duplicate.which")
        member_names[j] = member_names[j - 1]
        member_opts[j] = {"random_seed": 11 + j}
        member_opts[j - 1] = member_opts[j - 1] or {"random_seed": 3}
    return {"family": family, "symbols": symbols, "members": nmem, "profiles": profiles, "member_opts": member_opts,
            "member_names": member_names,
            "incremental": bool(tape.draw(2, "incremental")),
            "exit_on_exception": tape.chance(1, 4, "exit_on_exception"),
            "slow_start": tape.chance(1, 3, "slow_start"),
            "long_session": long_session,
            "ops": ops}


def shrink_plan(plan):
    if plan["members"] > 2:
        yield dict(plan, members=plan["members"] - 1, profiles=plan["profiles"][:-1])
    for m, lst in enumerate(plan["profiles"]):
        for si, pf in enumerate(lst):
            def repp(npf):
                ps = [list(x) for x in plan["profiles"]]
                ps[m][si] = npf
                return dict(plan, profiles=ps)
            if pf.get("fault"):
                yield repp({k: v for k, v in pf.items()
                            if k in ("check_delay", "latency", "short_reads", "model_policy", "value_delay")
                            and not (k == "check_delay" and v == float("inf"))})
            for key, simple in (("short_reads", False), ("latency", 0.0), ("check_delay", 0.0),
                                ("model_policy", "first"), ("value_delay", 0.0)):
                if pf.get(key, simple) != simple and not (key == "check_delay" and pf.get("fault") == "stall"):
                    yield repp(dict(pf, **{key: simple}))
    for i, o in enumerate(plan["ops"]):
        def rep(new):
            p = dict(plan)
            p["ops"] = plan["ops"][:i] + [new] + plan["ops"][i + 1:]
            return p
        if "f" in o:
            for c in bp.shrink_candidates(o["f"]):
                yield rep(dict(o, f=c))
        if o["op"] in ("push", "pop") and o["n"] > 1:
            yield rep(dict(o, n=o["n"] - 1))
        if o.get("pause"):
            yield rep(dict(o, pause=0.0))


def describe(plan):
    out = ["family=%s members=%d incremental=%s exit_on_exception=%s" %
           (plan["family"], plan["members"], plan["incremental"], plan["exit_on_exception"]),
           "symbols " + ", ".join("%s:%s" % (n, bp.smt_sort(s)) for n, s in plan["symbols"].items())]
    for m, lst in enumerate(plan["profiles"][:plan["members"]]):
        out.append("m%d per-solve: " % m + " | ".join(
            "%s%s" % (pf.get("check_delay"), ("/" + pf["fault"]) if pf.get("fault") else "") for pf in lst))
    for o in plan["ops"]:
        k = o["op"]
        if "f" in o:
            out.append("%s(%s)" % (k, bp.pretty(o["f"])))
        elif "n" in o:
            out.append("%s(%d)" % (k, o["n"]))
        else:
            out.append(k + "()" + (" after %ss" % o["pause"] if o.get("pause") else ""))
    return out


def _sat(fs):
    syms = {}
    for f in fs:
        bp.symbols_of(f, syms)
    return bp.satisfiable(fs, syms)


def execute(plan, tape):
    from pysmt.environment import reset_env
    from pysmt.logics import QF_BV
    from pysmt.exceptions import SolverReturnedUnknownResultError
    from pysmt.solvers.portfolio import Portfolio
    import pysmt.shortcuts as sc

    env = reset_env()
    mgr = env.formula_manager
    symbols = plan["symbols"]
    nmem = plan["members"]
    kernel = Kernel(tape, max_steps=20000 if not plan.get("long_session") else 2000000,
                    max_time=300.0 if not plan.get("long_session") else 30000.0)
    world = World(kernel, tape)
    net = Net(kernel, tape)
    net.slow_start = bool(plan.get("slow_start"))
    net.fd_limit = 64       # per process; a query of 4 members needs about a dozen
    names = list((plan.get("member_names") or ["m%d" % m for m in range(nmem)])[:nmem])
    if len(names) < nmem:
        names += ["m%d" % m for m in range(len(names), nmem)]
    for nm in sorted(set(names)):
        env.factory.add_generic_solver(nm, ["ref", nm], [QF_BV])

    def profile_fn(key, owner):
        # the member is identified by the order in which the portfolio created its processes for
        # the current solve (not by process names, which are an internal detail)
        idx = None
        for j, sp in enumerate(net.procs):
            if sp.task is owner:
                idx = j - state.get("proc_base", 0)
        if idx is None or idx < 0:
            return None
        si = max(state["solve_no"] - 1, 0)
        lst = plan["profiles"][idx % len(plan["profiles"])]
        return (dict(lst[min(si, len(lst) - 1)], member_tag=idx % max(1, nmem)), idx, si)
    world.profile_fn = profile_fn
    for n, s in symbols.items():
        mgr.Symbol(n, bp.to_pysmt_type(s, env))
    faulty = plan["family"] == "faulty"
    probes = {}
    trace = []
    state = {"nontrivial": False, "solve_no": 0}

    def probe(n, c=1):
        probes[n] = probes.get(n, 0) + c

    def new_portfolio():
        opts = {"incremental": plan["incremental"], "generate_models": True}
        if plan["exit_on_exception"]:
            opts["solver_options"] = {"exit_on_exception": True}
        mo = plan.get("member_opts") or []
        sset = [(n, dict(mo[j])) if j < len(mo) and mo[j] else n for j, n in enumerate(names)]
        if len(set(names)) < len(names):
            probe("same_solver_listed_twice")
        return api("Portfolio()", Portfolio, sset, environment=env, logic=QF_BV, **opts)

    def incarnation_procs(si):
        return [p for p in world.procs if p.solve_no == si and p.member_idx is not None]

    def member_status(si):
        """what each member of solve #si could do: 'answer', 'stall' or 'fail'"""
        out = []
        for m in range(nmem):
            pf = plan["profiles"][m][min(si, len(plan["profiles"][m]) - 1)]
            fk = pf.get("fault")
            if fk == "stall":
                out.append("stall")
            elif fk in ("unknown", "die_at_start"):
                out.append("fail")
            elif fk in ("error", "die_before", "die_after"):
                out.append("maybe-fail")      # depends on whether the faulty command number is reached
            else:
                out.append("answer")
        return out

    def actual_status(si):
        """after the fact: what the members of solve #si actually did"""
        out = {}
        for p in incarnation_procs(si):
            s = p.solver
            k_ = "%d:%s" % (p.member_idx, p.key)
            if (s.faults_fired and not p.profile.get("fault_after_answer")) or p.profile.get("die_at_start"):
                out[k_] = "stall" if s.faults_fired.get("stall") or p.profile.get("fault") == "stall" else "fail"
            else:
                out[k_] = "stall" if p.profile.get("fault") == "stall" else "answer"
        return out

    def solve_like(label, fn, fs_truth, pf_obj, negate=False):
        """a portfolio query; fs_truth: blueprints whose satisfiability is the truth"""
        si = state["solve_no"]
        state["solve_no"] += 1
        state["proc_base"] = len(net.procs)
        st = member_status(si)
        steps0, choices0 = kernel.steps, kernel.choices
        try:
            got = api(label, fn)
            raised = None
        except Violation as v:
            if ":raised:" not in v.sig:
                raise
            got, raised = None, v
        act = actual_status(si)
        n_answer = sum(1 for v in act.values() if v == "answer")
        started = len(act)
        if raised is not None:
            all_failed = started == nmem and all(v == "fail" for v in act.values())
            if all_failed:
                probe("all_members_failed_raised")
                return ("raised", None)
            if plan["exit_on_exception"] and any(v == "fail" for v in act.values()):
                probe("exit_on_exception_raised")
                return ("raised", None)
            raise Violation("C19:spurious-exception",
                            "%s raised although member(s) could answer (%s): %s" % (label, act, raised.msg))
        want = _sat(fs_truth) != negate
        if got != want:
            raise Violation("C19:verdict", "%s returned %s, the assertions are %s (members: %s)" %
                            (label, got, "sat" if want else "unsat", act))
        # non-triviality of this solve
        alive_at_win = getattr(pf_obj, "_dsim_alive_at_win", None)
        if kernel.choices > choices0 and nmem >= 2:
            state["nontrivial"] = True
        return ("ok", got)

    def _survivor_died():
        return any(p.solver.faults_fired.get("die_before_reply") and p.profile.get("fault_after_answer")
                   for p in world.procs)

    def run():
        pf = new_portfolio()
        model = StackModel()
        tok_bp = {}
        sat_mode = False
        extra = []
        for i, o in enumerate(plan["ops"]):
            k = o["op"]

            def live():
                return [tok_bp[j] for j in model.live_assertions()] + list(extra)
            if k == "assert":
                f = bp.build(o["f"], env)
                api("add_assertion", pf.add_assertion, f)
                tok_bp[i] = o["f"]
                model.assert_(i)
                extra, sat_mode = [], False
            elif k == "push":
                api("push", pf.push, o["n"])
                model.push(o["n"])
                extra, sat_mode = [], False
            elif k == "pop":
                nlev = min(o["n"], model.depth)
                if nlev == 0:
                    continue
                api("pop", pf.pop, nlev)
                model.pop(nlev)
                extra, sat_mode = [], False
            elif k == "reset":
                api("reset_assertions", pf.reset_assertions)
                model.reset_assertions()
                extra, sat_mode = [], False
            elif k == "solve":
                extra = []
                r = solve_like("solve", pf.solve, live(), pf)
                if r[0] == "raised":
                    # the portfolio reported the failure: it stays usable for the next query
                    sat_mode = False
                    probe("continued_after_reported_failure")
                    if (state.get("had_model") or tape.chance(1, 2, "ask.after.failure")) and symbols:
                        # a (mistaken) value request right after the failure: any exception is fine,
                        # a call that never returns is not
                        try:
                            if state.get("had_model") or tape.chance(1, 2, "ask.after.failure.model"):
                                mdl_ = api("get_model", pf.get_model)
                                # no member answered this query: a model handed out now is not one of the
                                # current assertions unless it happens to satisfy them
                                a_ = {}
                                for f_ in live():
                                    for n_ in bp.symbols_of(f_):
                                        a_[n_] = mdl_.get_value(mgr.get_symbol(n_)).constant_value()
                                if not all(bp.evaluate(f_, a_) for f_ in live()):
                                    raise Violation("C19:stale-model",
                                                    "after a solve() that failed, get_model() returned %s which falsifies the current assertions" % a_)
                            else:
                                api("get_value", pf.get_value, mgr.get_symbol(sorted(symbols)[0]))
                            probe("value_request_after_failed_solve_returned")
                        except Violation as v_:
                            if ":raised:" not in v_.sig:
                                raise
                            probe("value_request_after_failed_solve_raised")
                    continue
                sat_mode = bool(r[1])
            elif k in ONESHOT:
                if not plan["incremental"]:
                    continue        # non-incremental one-shot queries disable the solver afterwards
                f = bp.build(o["f"], env)
                q = o["f"] if k != "is_valid" else ["not", o["f"]]
                base = [tok_bp[j] for j in model.live_assertions()]
                si = state["solve_no"]
                r = solve_like(k, lambda: getattr(pf, k)(f), base + [q], pf, negate=(k != "is_sat"))
                if r[0] == "raised":
                    # (a one-shot query that raised may or may not have left its level: handled by the
                    # pending-pop logic; the run goes on and later verdicts are still checked)
                    extra, sat_mode = [], False
                    probe("continued_after_reported_failure")
                    continue
                # solve_like compared the raw verdict with sat(base+q); undo the negation
                extra = [q]
                sat_mode = _sat(base + [q])
            elif k == "get_model":
                if not sat_mode:
                    continue
                if o.get("pause"):
                    kernel.sleep(o["pause"])
                try:
                    mdl = api("get_model", pf.get_model)
                except Violation as v_:
                    if ":raised:" in v_.sig and _survivor_died():
                        # no value from a survivor that died; the portfolio stays usable for the next query
                        probe("value_request_raised_after_survivor_died")
                        extra, sat_mode = [], False
                        continue
                    raise
                syms = {}
                for f in live():
                    bp.symbols_of(f, syms)
                a = {}
                for n in syms:
                    a[n] = api("model.get_value", mdl.get_value, mgr.get_symbol(n)).constant_value()
                for f in live():
                    if not bp.evaluate(f, a):
                        raise Violation("C19:model-unsat", "get_model() after sat returned %s which falsifies %s" %
                                        (a, bp.pretty(f)))
                probe("get_model_checked")
                state["had_model"] = True      # (a model was handed out for an earlier query)
            elif k == "get_values":
                if not sat_mode:
                    continue
                if o.get("pause"):
                    kernel.sleep(o["pause"])
                # ask for every symbol the surviving member knows, one call each
                surv = [p for p in world.procs if p.key in names and not p.terminated and not p.solver.dead
                        and p.solver.mode == "sat" and p.owner is not None and p.owner.alive()]
                if not surv:
                    continue
                known = {n for n, _ in surv[0].solver.live_consts()}
                for p_ in surv[1:]:
                    known &= {n for n, _ in p_.solver.live_consts()}
                if len(surv) > 1:
                    probe("several_members_alive_at_get_value")
                syms = {}
                for f in live():
                    bp.symbols_of(f, syms)
                a = {}
                died = False
                asked = list(syms)
                if o.get("partial"):
                    asked = sorted(n for n in syms if n in known)
                    asked = asked[:max(1, len(asked) // 2)]
                    probe("get_values_partial")
                for n in asked:
                    if n in known:
                        try:
                            v = api("get_value", pf.get_value, mgr.get_symbol(n))
                        except Violation as v_:
                            if ":raised:" in v_.sig and _survivor_died():
                                probe("value_request_raised_after_survivor_died")
                                died = True
                                break
                            raise
                        if v not in mgr:
                            raise Violation("C19:value-foreign", "get_value returned a formula of another manager")
                        a[n] = v.constant_value()
                    else:
                        a[n] = bp.domain(syms[n])[0]
                        if tape.chance(1, 3, "ask.unknown.symbol"):
                            # a value request the member cannot serve (its solver was never told about
                            # the symbol): it may raise - the member dies of it - but it must not block
                            try:
                                api("get_value", pf.get_value, mgr.get_symbol(n))
                                probe("value_of_undeclared_symbol_returned")
                            except Violation as v_:
                                if ":raised:" not in v_.sig:
                                    raise
                                probe("value_of_undeclared_symbol_refused")
                                died = True
                                break
                if died:
                    extra, sat_mode = [], False
                    continue
                if o.get("partial") or any(n not in known for n in syms):
                    continue
                if syms and o.get("many"):
                    # one get_values() call with repeated terms (optionally very many of them): every
                    # term gets its own value, and the call returns however long the list is
                    names_ = sorted(syms)
                    # (repeats in a tape-chosen order, every symbol at least once, a new one last)
                    reps = [names_[tape.draw(len(names_), "get_values.pick")] for j in range(max(0, o["many"] - len(names_)))] \
                        + list(reversed(names_))
                    terms = [mgr.get_symbol(n_) for n_ in reps]
                    vals = api("get_values", pf.get_values, terms)
                    for n_, t_ in zip(reps, terms):
                        if t_ not in vals or vals[t_].constant_value() != a[n_]:
                            raise Violation("C19:values-mixed-up", "get_values(%d terms with repeats) gave %s = %s, get_value gave %s" %
                                            (len(terms), n_, vals.get(t_), a[n_]))
                    probe("get_values_with_repeats" + ("_bulk" if o["many"] > 50 else ""))
                for f in live():
                    if not bp.evaluate(f, a):
                        raise Violation("C19:values-unsat", "get_value()s after sat gave %s which falsifies %s" %
                                        (a, bp.pretty(f)))
                probe("get_values_checked")
            elif k == "gc":
                # the garbage collector runs (in the parent): connection objects kept alive only by
                # reference cycles (tracebacks of reported failures) are closed now
                import gc as _gc
                _gc.collect()
                probe("gc_in_parent")
            elif k == "renew":
                api("exit", pf.exit)
                pf = new_portfolio()
                model = StackModel()
                tok_bp = {}
                extra, sat_mode = [], False
            elif k == "shortcut":
                f = bp.build(o["f"], env)
                sk = o.get("kind", "is_sat")
                q = o["f"] if sk != "is_valid" else ["not", o["f"]]
                r = solve_like("shortcut." + sk, lambda: getattr(sc, sk)(f, portfolio=names, logic=QF_BV), [q], None,
                               negate=(sk != "is_sat"))
                if r[0] == "raised":
                    probe("continued_after_reported_failure")
            trace.append((k, o.get("n"), model.depth))
        api("exit", pf.exit)

    ended = "ok"
    with ProcSeams(world), MpSeams(net):
        try:
            kernel.run_main(run)
        except SimDeadlock as d:
            si = state["solve_no"] - 1
            act = actual_status(max(si, 0))
            stalled = [k for k, v in act.items() if v == "stall"]
            if not stalled and _survivor_died():
                raise Violation("C19:blocks-forever:survivor-died",
                                "a value request never returned after the surviving member died (%s): %s" %
                                (d.reason, d.detail[:200]))
            if stalled:
                # a stalled member is still running: waiting for it (blocking, or polling
                # until the step / virtual-time budget is exhausted) is legitimate
                ended = "blocked-on-stalled-member"
                probe("blocked_on_stalled_member")
            else:
                started = len(act)
                cls = "all-members-failed" if act and all(v == "fail" for v in act.values()) else "other"
                raise Violation("C19:blocks-forever:%s" % cls,
                                "a portfolio call never returned (%s): members of that solve: %s; %s" %
                                (d.reason, act, d.detail[:200]))
    faults = dict(world.fault_counts)
    for p in world.procs:
        for k, v in p.solver.faults_fired.items():
            faults[k] = faults.get(k, 0) + v
    for k, v in net.stats.items():
        if v and k in ("q_lost", "q_delayed", "terminated", "pickled_exceptions"):
            probes[k] = probes.get(k, 0) + v
    trace.append(tuple(kernel.sched_log))
    return {"digest": digest_of(trace), "nontrivial": state["nontrivial"], "probes": probes,
            "faults": faults, "sim_time": min(kernel.now, 1e6), "steps": kernel.steps,
            "sample": {"ops": describe(plan), "ended": ended, "sched_choices": kernel.choices,
                       "schedule_head": [t for t, n in kernel.sched_log[:60]]}}
