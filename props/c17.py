"""C17 - text-interface solver: legal command stream, replies in sync, faithful model.

The real SmtLibSolver (and the factory shortcuts that create one) talks over
simulated pipes to a strict reference SMT-LIB solver.  Run-time decisions on
the tape: chunking of every read (short reads inside a reply), short writes,
reply latencies (virtual time), which model the solver holds after each
check-sat, and - in the fault family - where the peer answers unknown, replies
(error ...), dies (EOF), or the pipe raises EIO.
"""
from dsim import bp
from dsim.kernel import Kernel, SimDeadlock
from dsim.proc import World, Seams
from dsim.runner import Violation, api, digest_of
from dsim.stackmodel import StackModel

ID = "C17"
LEVEL = "fault_enumeration"
GC_CONTROL = True
RULE = ("one case = a history of 5-25 API calls (add_assertion, push(n)/pop(n) n in 1..3, solve, get_value, get_model, "
        "reset_assertions, is_sat/is_valid/is_unsat, factory shortcuts) on one or two real SmtLibSolver objects over "
        "simulated pipes to the strict reference solver, with tape-chosen read chunking, latencies, model choice and "
        "(fault family) one injected peer/pipe fault. Non-trivial: a symbol declared at depth > 0 is used again after "
        "a pop or reset, or a get_value/get_model is followed by >= 1 further command. Distinct: digest of the "
        "command stream the reference solver received plus its replies.")
COMPONENTS = {
    "real": ["pysmt.smtlib.solver.SmtLibSolver / SmtLibOptions", "pysmt.solvers.solver.Solver.is_sat/is_valid/is_unsat",
             "pysmt.decorators.clear_pending_pop", "SmtLibCommand.serialize + SmtDagPrinter",
             "SmtLibParser(interactive).get_assignment_list", "EagerModel", "FNode.simplify / get_free_variables / TypesOracle",
             "Factory.add_generic_solver / Solver(name=) / is_sat / is_valid / is_unsat / get_model shortcuts",
             "io.TextIOWrapper / BufferedReader / BufferedWriter (CPython, unmodified)"],
    "stub": ["subprocess.Popen -> dsim.proc.SimPopen (raw byte pipes)", "time -> dsim.proc.SimTime (virtual clock)",
             "solver binary -> dsim.refsolver.RefSolver (strict SMT-LIB 2.6 interpreter, exhaustive finite-domain search)"],
}
ASSUMPTIONS = [
    "the reference solver follows the standard for reset-assertions (declarations are dropped when :global-declarations "
    "is false, as cvc5 1.0 does; z3 4.8 keeps them)",
    "finite-domain theories only: Bool, BV width <= 3, declared sorts of arity 0 with cardinality 2",
    "in the fault family the run ends at the first call that raises or blocks after a fault fired; until then no "
    "returned verdict/value may differ from the truth",
]
TIERS = {
    "quick": {"runs": 16000, "budget_s": 75},
    "thorough": {"runs": 900000, "budget_s": 900},
}

NAMES = ["a", "b", "c", "x y", "p.q", "A!1", ".def_0", ".def_1", "1) d", "e(f", 'g"h']
ONESHOT = ("is_sat", "is_valid", "is_unsat")


def gen_plan(tape, cfg):
    family = "faulty" if tape.chance(1, 4, "family") else "fault-free"
    use_usort = tape.chance(1, 5, "usort?")
    nsym = tape.rint(2, 5, "nsym")
    names = tape.shuffle(NAMES, "names")[:nsym]
    symbols = {}
    for n in names:
        k = tape.draw(4, "symsort")
        symbols[n] = bp.BOOL if k == 0 else bp.BV(k)
    if use_usort:
        symbols["u0"] = ["S", "U"]
        symbols["u1"] = ["S", "U"]
        if tape.chance(1, 2, "usort2"):
            symbols["w0"] = ["S", "VW"]
            symbols["w1"] = ["S", "VW"]
        if tape.chance(1, 2, "usort.fun"):
            # a function whose RESULT sort is a declared sort (the sort may occur nowhere else)
            symbols["gu"] = ["Fun", [bp.BV(1)], ["S", "U"]]
            if not any(bp.is_bv(s_) and s_[1] == 1 for s_ in symbols.values()):
                symbols["o1"] = bp.BV(1)
        if tape.chance(1, 2, "usort.arrays"):
            # arrays whose element sort is a declared sort (the sort may occur nowhere else in a formula)
            symbols["ar0"] = bp.ARRAY(bp.BV(1), ["S", "U"])
            symbols["ar1"] = bp.ARRAY(bp.BV(1), ["S", "U"])
            if not any(bp.is_bv(s_) and s_[1] == 1 for s_ in symbols.values()):
                symbols["o1"] = bp.BV(1)
    if tape.chance(1, 4, "uf?"):
        # uninterpreted functions over tiny domains (the reference solver enumerates their tables)
        symbols["fn1"] = ["Fun", [bp.BV(1)], bp.BV(1)]
        if tape.chance(1, 2, "uf2"):
            symbols["pr"] = ["Fun", [bp.BOOL, bp.BV(1)], bp.BOOL]
        if not any(bp.is_bv(s_) and s_[1] == 1 for s_ in symbols.values()):
            symbols["o1"] = bp.BV(1)
    ctx = bp.GenCtx(symbols, bv=True, usorts=use_usort, quant=use_usort and tape.chance(1, 2, "quantifiers"))
    nsolvers = 2 if tape.chance(1, 4, "two solvers") else 1
    kinds = [(6, "assert"), (3, "push"), (3, "pop"), (4, "solve"), (1, "reset")]
    for w, k in [(3, "get_value"), (2, "get_model"), (2, "is_sat"), (1, "is_valid"), (1, "is_unsat"),
                 (1, "shortcut"), (1, "print_model")]:
        if tape.chance(3, 4, "enable." + k):
            kinds.append((w, k))
    if use_usort or any(bp.is_fun(s_) for s_ in symbols.values()):
        # SmtLibSolver.get_model() has no representation for values of declared sorts nor for
        # function interpretations: not asked in these runs (limitation noted in DESIGN.md)
        kinds = [(w, k) for w, k in kinds if k not in ("get_model", "print_model")]
    n = tape.rint(5, 25, "nops")
    ops = []
    # Known finding F6 makes every history that re-uses a symbol after
    # reset_assertions end at that point.  So that resets are still explored
    # in depth, most plans switch to a fresh generation of symbol names after
    # each reset (name#k); 1 plan in 6 keeps re-using the old names.
    reuse_after_reset = tape.chance(1, 6, "reuse_after_reset")
    epoch = [0] * nsolvers
    base_symbols = dict(symbols)

    def ren(t, e):
        if e == 0 or reuse_after_reset:
            return t
        if t[0] == "sym":
            nm = "%s#%d" % (t[1], e)
            srt = t[2]
            if bp.is_usort(srt):
                srt = ["S", "%s_%d" % (srt[1], e)]   # sort names stay simple symbols: pySMT does not quote them (C07 matter, not claimed here)
            if bp.is_array(srt) and bp.is_usort(srt[2]):
                srt = bp.ARRAY(srt[1], ["S", "%s_%d" % (srt[2][1], e)])
            symbols[nm] = srt
            return ["sym", nm, srt]
        if t[0] in ("bool", "int", "real", "bv"):
            return t
        if t[0] == "app":
            nm = "%s#%d" % (t[1], e)
            res = ["S", "%s_%d" % (t[3][1], e)] if bp.is_usort(t[3]) else t[3]
            symbols[nm] = ["Fun", t[2], res]
            return ["app", nm, t[2], res] + [ren(x, e) for x in t[4:]]
        if t[0] in bp.QUANT:
            # bound variables keep their names; their sorts belong to the new generation
            newname = {}
            binders = []
            for n_, s_ in t[1]:
                s2 = ["S", "%s_%d" % (s_[1], e)] if bp.is_usort(s_) else s_
                newname[n_] = ("%s_%s" % (n_.split("_", 1)[0], s2[1]) if bp.is_usort(s_) else n_, s2)
                binders.append([newname[n_][0], s2])

            def rebind(x):
                if x[0] == "sym" and x[1] in newname:
                    return ["sym", newname[x[1]][0], newname[x[1]][1]]
                if x[0] in ("bool", "int", "real", "bv"):
                    return x
                if x[0] == "sym":
                    return ren(x, e)
                if x[0] == "app":
                    return ren(x[:4], e) [:4] + [rebind(y) for y in x[4:]]
                b_ = 1 + bp.PARAM_OPS.get(x[0], 0)
                return x[:b_] + [rebind(y) for y in x[b_:]]
            return [t[0], binders, rebind(t[2])]
        base = 1 + bp.PARAM_OPS.get(t[0], 0)
        return t[:base] + [ren(x, e) for x in t[base:]]

    for _ in range(n):
        k = tape.weighted(kinds, "op")
        s = tape.draw(nsolvers, "which solver")
        o = {"op": k, "s": s}
        if k == "reset":
            epoch[s] += 1
        if k == "assert" or k in ONESHOT:
            o["f"] = bp.gen_term(tape, bp.BOOL, 2, ctx)
        elif k in ("push", "pop"):
            o["n"] = tape.weighted([(5, 1), (3, 2), (1, 3), (1, 0)], "levels")
        elif k == "get_value":
            srt = tape.choice([s_ for s_ in symbols.values() if not bp.is_usort(s_) and not bp.is_fun(s_)
                               and not bp.is_array(s_)] or [bp.BOOL], "gv.sort")
            o["t"] = bp.gen_term(tape, srt, tape.rint(0, 2, "gv.depth"), ctx)
            if ctx.quant and ctx.usort_list() and tape.chance(1, 3, "gv.quantified"):
                # the value of a closed quantified term over a declared sort (the reply echoes the term)
                s_ = tape.choice(ctx.usort_list(), "gv.q.sort")
                na, nb = "qa_%s" % s_[1], "q b_%s" % s_[1]
                o["t"] = [tape.choice(bp.QUANT, "gv.q"), [[na, s_], [nb, s_]],
                          tape.choice([["=", ["sym", na, s_], ["sym", nb, s_]], ["not", ["=", ["sym", na, s_], ["sym", nb, s_]]]], "gv.q.body")]
            o["api"] = tape.choice(["get_value", "get_value", "get_py_value", "get_values"], "gv.api")
        elif k == "shortcut":
            o["kind"] = tape.choice(["is_sat", "is_valid", "is_unsat", "get_model"]
                                    if not (use_usort or any(bp.is_fun(s_) for s_ in symbols.values()))
                                    else ["is_sat", "is_valid", "is_unsat"], "shortcut.kind")
            o["f"] = bp.gen_term(tape, bp.BOOL, 2, ctx)
        for key in ("f", "t"):
            if key in o and k != "shortcut":
                o[key] = ren(o[key], epoch[s] - (1 if k == "reset" else 0))
        ops.append(o)
    profile = {"short_reads": tape.chance(1, 2, "short_reads"),
               "short_writes": tape.chance(1, 4, "short_writes"),
               "latency": tape.choice([0.0, 0.0, 0.001], "latency"),
               "check_delay": tape.choice([0.0, 0.0, 0.5, 30.0], "check_delay"),
               "model_policy": tape.choice(["uniform", "uniform", "first", "last"], "model_policy"),
               "value_layout": tape.choice(["one-line", "one-line", "pretty"], "value_layout")}
    if family == "faulty":
        fk = tape.choice(["unknown", "error", "die_before", "die_after", "die_at_start", "eio", "stall"], "fault.kind")
        if fk == "unknown":
            profile["unknown_at_check"] = [tape.rint(1, 4, "fault.k")]
        elif fk == "error":
            profile["error_at_cmd"] = tape.rint(5, 30, "fault.k")
        elif fk == "die_before":
            profile["die_before_cmd"] = tape.rint(1, 30, "fault.k")
        elif fk == "die_after":
            profile["die_after_cmd"] = tape.rint(1, 30, "fault.k")
        elif fk == "die_at_start":
            profile["die_at_start"] = True
        elif fk == "eio":
            profile["eio_at_read"] = tape.rint(1, 40, "fault.k")
        else:
            profile["check_delay"] = float("inf")
        profile["fault"] = fk
    return {"family": family, "symbols": symbols, "nsolvers": nsolvers, "profile": profile, "ops": ops}


def shrink_plan(plan):
    if plan["nsolvers"] > 1:
        p = dict(plan, nsolvers=1)
        p["ops"] = [dict(o, s=0) for o in plan["ops"]]
        yield p
    pf = plan["profile"]
    for key, simple in (("short_reads", False), ("short_writes", False), ("latency", 0.0), ("check_delay", 0.0),
                        ("model_policy", "first"), ("value_layout", "one-line")):
        if pf.get(key) != simple and not (key == "check_delay" and pf.get("fault") == "stall"):
            yield dict(plan, profile=dict(pf, **{key: simple}))
    for i, o in enumerate(plan["ops"]):
        def rep(new):
            p = dict(plan)
            p["ops"] = plan["ops"][:i] + [new] + plan["ops"][i + 1:]
            return p
        for key in ("f", "t"):
            if key in o:
                for c in bp.shrink_candidates(o[key]):
                    yield rep(dict(o, **{key: c}))
        if o["op"] in ("push", "pop") and o["n"] > 1:
            yield rep(dict(o, n=o["n"] - 1))


def describe(plan):
    out = ["family=%s solvers=%d profile=%s" % (plan["family"], plan["nsolvers"], plan["profile"]),
           "symbols " + ", ".join("%s:%s" % (n, bp.smt_sort(s)) for n, s in plan["symbols"].items())]
    for o in plan["ops"]:
        k = o["op"]
        pre = "s%d." % o["s"]
        if k == "shortcut":
            out.append("shortcut %s(%s)" % (o["kind"], bp.pretty(o["f"])))
        elif "f" in o:
            out.append(pre + "%s(%s)" % (k, bp.pretty(o["f"])))
        elif "t" in o:
            out.append(pre + "%s(%s)" % (k, bp.pretty(o["t"])))
        elif "n" in o:
            out.append(pre + "%s(%d)" % (k, o["n"]))
        else:
            out.append(pre + k + "()")
    return out


# --------------------------------------------------------------------------

def classify_illegal(ref):
    """specific signature for the first protocol breach recorded by the reference solver"""
    no, why = ref.illegal[0]
    src = [e["src"] for e in ref.log if e["no"] == no]
    src = src[0] if src else ""
    cat = why.split(":")[0].split(" ")[0]
    if "used but not declared" in why:
        name = why.split("symbol ", 1)[1].split(" used but")[0]
        cat = "never-declared"
        declared = False
        for e in ref.log:
            if e["no"] >= no:
                break
            if e["name"] in ("declare-fun", "declare-const") and e["reply"] == "success":
                toks = e["src"].replace("|", " | ").split()
                nm = e["src"][len("(" + e["name"]):].strip()
                nm = nm[1:nm.index("|", 1)] if nm.startswith("|") else nm.split()[0]
                if nm == name:
                    declared = True
                    cat = "declared-but-out-of-scope"
            elif declared and e["name"] == "reset-assertions":
                cat = "undeclared-after-reset"
            elif declared and e["name"] == "pop" and cat == "declared-but-out-of-scope":
                cat = "undeclared-after-pop"
        cmd = src.split()[0].lstrip("(") if src else "?"
        cat = "%s@%s" % (cat, cmd)
    elif "unknown sort" in why:
        name = why.split("unknown sort ", 1)[1].strip()
        cat = "unknown-sort"
        declared = False
        for e in ref.log:
            if e["no"] >= no:
                break
            if e["name"] == "declare-sort" and e["reply"] == "success":
                nm = e["src"][len("(declare-sort"):].strip()
                nm = nm[1:nm.index("|", 1)] if nm.startswith("|") else nm.split()[0]
                if nm == name:
                    declared = True
                    cat = "sort-out-of-scope"
            elif declared and e["name"] == "reset-assertions":
                cat = "undeclared-sort-after-reset"
            elif declared and e["name"] == "pop" and cat == "sort-out-of-scope":
                cat = "undeclared-sort-after-pop"
    elif "already declared in scope" in why:
        cat = "redeclared-in-scope"
    elif why.startswith("pop"):
        cat = "pop-below-level-0"
    elif "outside sat mode" in why:
        cat = "get-value-outside-sat-mode"
    return ("C17:illegal-stream:" + cat,
            "reference solver rejected command #%d %s: %s" % (no, src[:80], why))


class _SolverState(object):
    def __init__(self):
        self.solver = None
        self.proc = None
        self.model = StackModel()
        self.tok_bp = {}
        self.sat_mode = False     # last verdict sat and nothing changed since
        self.extra = []           # blueprints asserted by a pending one-shot query
        self.pending = False
        self.used_at_depth = {}   # symbol -> set of depths where first declared (for non-triviality)


def _sat(fs):
    """brute-force truth over exactly the symbols that occur"""
    syms = {}
    for f in fs:
        bp.symbols_of(f, syms)
    return bp.satisfiable(fs, syms)


def _ref_env(ref):
    """the reference solver's current model as a blueprint environment"""
    return dict(ref.model) if ref.model is not None else None


def execute(plan, tape):
    from pysmt.environment import reset_env
    from pysmt.logics import QF_BV, QF_UFBV, QF_AUFBV
    from pysmt.exceptions import (SolverReturnedUnknownResultError, UnknownSolverAnswerError,
                                  PysmtException, PysmtValueError)
    import pysmt.shortcuts as sc

    env = reset_env()
    mgr = env.formula_manager
    symbols = plan["symbols"]
    has_usort = any(bp.is_usort(s) or bp.is_fun(s) for s in symbols.values())
    logic = QF_UFBV if has_usort else QF_BV
    if any(bp.is_array(s) for s in symbols.values()):
        logic = QF_AUFBV
    faulty = plan["family"] == "faulty"
    kernel = Kernel(tape, max_steps=50000, max_time=1e7)
    world = World(kernel, tape)
    world.profiles["p0"] = plan["profile"]
    # the shortcut solvers get a fault-free copy of the profile
    clean = {k: v for k, v in plan["profile"].items()
             if k in ("short_reads", "short_writes", "latency", "model_policy", "value_layout")}
    clean["check_delay"] = 0.0 if plan["profile"].get("check_delay") == float("inf") else plan["profile"].get("check_delay", 0.0)
    world.profiles["p1"] = clean
    env.factory.add_generic_solver("ref0", ["ref", "p0"], [QF_AUFBV, QF_UFBV, QF_BV])
    env.factory.add_generic_solver("ref1", ["ref", "p1"], [QF_AUFBV, QF_UFBV, QF_BV])
    for n, s in symbols.items():
        mgr.Symbol(n, bp.to_pysmt_type(s, env))
    probes = {}
    trace = []
    state = {"nontrivial": False, "fault_seen": False}

    def probe(n):
        probes[n] = probes.get(n, 0) + 1

    def faults_fired():
        d = dict(world.fault_counts)
        for p in world.procs:
            for k, v in p.solver.faults_fired.items():
                d[k] = d.get(k, 0) + v
        return d

    def check_stream(st, where):
        ref = st.proc.solver
        if ref.illegal:
            sig, msg = classify_illegal(ref)
            raise Violation(sig, "after %s: %s" % (where, msg))
        want = st.model.depth + (1 if st.pending else 0)
        if ref.depth() != want and not ref.dead:
            raise Violation("C17:push-pop-not-mirrored",
                            "after %s: solver is at assertion level %d, API history is at level %d" %
                            (where, ref.depth(), want))
        unread = st.proc.unread_bytes()
        if unread.strip():
            raise Violation("C17:unread-reply", "after %s: unread solver output %r" % (where, unread[:60]))

    def call(st, label, fn, *a, **kw):
        """API call on a solver object: a failure caused by a protocol breach is
        reported as that breach (specific signature), not as the exception it led to"""
        try:
            return api(label, fn, *a, **kw)
        except Violation as v:
            if st is not None and st.proc is not None and st.proc.solver.illegal:
                sig, msg = classify_illegal(st.proc.solver)
                raise Violation(sig, "%s; the call then failed: %s" % (msg, v.msg))
            if st is not None and st.proc is not None and "UnknownSolverAnswerError" in v.sig \
                    and not st.proc.solver.dead and not faults_fired():
                last = st.proc.solver.log[-1] if st.proc.solver.log else {}
                raise Violation("C17:reply-misattributed",
                                "%s although the solver answered %r to its last command %s" %
                                (v.msg, last.get("reply"), str(last.get("src"))[:60]))
            raise

    def run():
        sts = [_SolverState() for _ in range(plan["nsolvers"])]
        for st in sts:
            st.solver = api("Solver(name=ref0)", env.factory.Solver, name="ref0", logic=logic)
            st.proc = world.procs[-1]
            check_stream(st, "start-up")
        def step(i, o):
            k = o["op"]
            if k == "shortcut":
                _shortcut(o, i)
                return
            st = sts[o["s"] % len(sts)]
            ref = st.proc.solver
            solver = st.solver

            def live():
                return [st.tok_bp[j] for j in st.model.live_assertions()] + list(st.extra)

            where = "%s@%d" % (k, i)
            if k == "assert":
                f = bp.build(o["f"], env)
                call(st, "add_assertion", solver.add_assertion, f)
                st.extra, st.pending = [], False
                st.tok_bp[i] = o["f"]
                st.model.assert_(i)
                st.sat_mode = False
                for n in bp.symbols_of(o["f"]):
                    st.model.declare((n, st.model.depth))
            elif k == "push":
                call(st, "push", solver.push, o["n"])
                st.extra, st.pending = [], False
                st.model.push(o["n"])
                st.sat_mode = False
                if o["n"] > 1:
                    probe("multi_level_push")
            elif k == "pop":
                nlev = min(o["n"], st.model.depth)
                if nlev == 0 and o["n"] != 0:
                    return
                if st.pending:
                    probe("pending_pop_then_pop")
                if nlev < o["n"] or (st.model.depth > nlev):
                    probe("pop_fewer_than_depth")
                call(st, "pop", solver.pop, nlev)
                st.extra, st.pending = [], False
                st.model.pop(nlev)
                st.sat_mode = False
            elif k == "reset":
                call(st, "reset_assertions", solver.reset_assertions)
                st.extra, st.pending = [], False
                st.model.reset_assertions()
                st.sat_mode = False
            elif k == "solve":
                try:
                    got = call(st, "solve", solver.solve, allowed=(SolverReturnedUnknownResultError,))
                except SolverReturnedUnknownResultError:
                    if ref.mode == "unknown":
                        st.extra, st.pending = [], False
                        st.sat_mode = False
                        return
                    raise Violation("C17:spurious-unknown", "solve raised unknown but the solver said %s" % ref.mode)
                st.extra, st.pending = [], False
                want = _sat(live())
                if got != want:
                    raise Violation("C17:verdict", "%s returned %s, live assertions are %s (solver replied %s)" %
                                    (where, got, "sat" if want else "unsat", ref.mode))
                st.sat_mode = bool(got)
            elif k in ONESHOT:
                f = bp.build(o["f"], env)
                try:
                    got = call(st, k, getattr(solver, k), f, allowed=(SolverReturnedUnknownResultError,))
                except SolverReturnedUnknownResultError:
                    if ref.mode == "unknown":
                        st.extra, st.pending = [], True
                        st.sat_mode = False
                        return
                    raise Violation("C17:spurious-unknown", "%s raised unknown but the solver said %s" % (k, ref.mode))
                base = [st.tok_bp[j] for j in st.model.live_assertions()]
                q = o["f"] if k != "is_valid" else ["not", o["f"]]
                sat = _sat(base + [q])
                want = sat if k == "is_sat" else not sat
                if got != want:
                    raise Violation("C17:oneshot-verdict", "%s returned %s, truth %s" % (where, got, want))
                st.extra, st.pending = [q], True
                st.sat_mode = sat
            elif k == "get_value":
                if not st.sat_mode:
                    return
                if st.pending:
                    probe("get_value_after_oneshot")
                t = bp.build(o["t"], env)
                declared = {n for n, _ in ref.live_consts()}
                unknown = [n for n in bp.symbols_of(o["t"]) if n not in declared]
                if unknown:
                    # the solver has never been told about these symbols (or they went out
                    # of scope): the only legal outcomes are a clean refusal with nothing
                    # sent, or - checked below - a legal stream with a correct value
                    n_before = len(ref.log)
                    try:
                        got = call(st, "get_value", solver.get_value, t, allowed=(PysmtValueError,))
                    except PysmtValueError:
                        if len(ref.log) != n_before:
                            raise Violation("C17:refused-after-sending",
                                            "get_value refused %s after sending %s" %
                                            (bp.pretty(o["t"]), ref.log[-1]["src"][:60]))
                        probe("get_value_refused_unknown_symbol")
                        check_stream(st, where)
                        return
                else:
                    api_ = o.get("api", "get_value")
                    if api_ == "get_py_value":
                        pv = call(st, "get_py_value", solver.get_py_value, t)
                        got = call(st, "get_value", solver.get_value, t)
                        if got.is_constant() and pv != got.constant_value():
                            raise Violation("C17:value", "%s: get_py_value gave %r, get_value gave %s" % (where, pv, got))
                    elif api_ == "get_values":
                        dv = call(st, "get_values", solver.get_values, [t])
                        if list(dv) != [t]:
                            raise Violation("C17:value", "%s: get_values([t]) returned keys %s" % (where, list(dv)))
                        got = dv[t]
                    else:
                        got = call(st, "get_value", solver.get_value, t)
                m = _ref_env(ref)
                if m is None:
                    raise Violation("C17:model-mode", "get_value returned %s but the solver is in mode %s" % (got, ref.mode))
                want = bp.evaluate(o["t"], m)
                if not got.is_constant() or got.constant_value() != want:
                    raise Violation("C17:value", "%s returned %s, the solver's model gives %s" % (where, got, want))
                st.after_value = True
            elif k == "print_model":
                if not st.sat_mode:
                    return
                import io, contextlib
                buf = io.StringIO()
                with contextlib.redirect_stdout(buf):
                    call(st, "print_model", solver.print_model)
                m = _ref_env(ref)
                if m is None:
                    raise Violation("C17:model-mode", "print_model returned but the solver is in mode %s" % ref.mode)
                shown = {}
                for line in buf.getvalue().splitlines():
                    if " = " in line:
                        nm_, val_ = line.rsplit(" = ", 1)
                        shown[nm_.strip()] = val_.strip()
                for n, srt in ref.live_consts():
                    sym = mgr.get_symbol(n)
                    key_ = str(sym)
                    if key_ not in shown:
                        raise Violation("C17:print-model-missing", "%s: print_model shows no line for %r (printed: %s)" %
                                        (where, n, sorted(shown)))
                    want_ = str(mgr.Bool(m[n]) if srt == ("Bool",) else mgr.BV(m[n], srt[1]))
                    if shown[key_] != want_:
                        raise Violation("C17:print-model-value", "%s: print_model shows %s = %s, the solver's model has %s" %
                                        (where, n, shown[key_], want_))
                probe("print_model_checked")
            elif k == "get_model":
                if not st.sat_mode:
                    return
                if st.pending:
                    probe("get_model_after_oneshot")
                if st.model.depth > 0:
                    probe("model_at_depth>0")
                mdl = call(st, "get_model", solver.get_model)
                m = _ref_env(ref)
                if m is None:
                    raise Violation("C17:model-mode", "get_model returned but the solver is in mode %s" % ref.mode)
                allsyms = {}
                for f in live():
                    bp.symbols_of(f, allsyms)
                # symbols the solver knows (a symbol simplified away before sending is
                # legitimately absent; model completion then applies)
                declared = {n for n, _ in ref.live_consts()}
                need = {n: s_ for n, s_ in allsyms.items() if n in declared}
                for n, srt in need.items():
                    sym = mgr.get_symbol(n)
                    if sym not in mdl:
                        raise Violation("C17:model-missing-symbol",
                                        "%s: model has no value for symbol %r of the live assertions (depth %d)" %
                                        (where, n, st.model.depth))
                    v = mdl.get_value(sym, model_completion=False)
                    if v.constant_value() != m[n]:
                        raise Violation("C17:model-value", "%s: model gives %s=%s, solver reported %s" %
                                        (where, n, v, m[n]))
                a = {n: mdl.get_value(mgr.get_symbol(n)).constant_value() for n in allsyms}
                for f in live():
                    if not bp.evaluate(f, a):
                        raise Violation("C17:model-unsat", "%s: returned model falsifies %s" % (where, bp.pretty(f)))
            check_stream(st, where)
            if k in ("get_value", "get_model"):
                st.read_model_at = len(ref.log)
            trace.append((o["s"], k, o.get("n"), ref.depth(), ref.mode))

        for i, o in enumerate(plan["ops"]):
            st_ = sts[o.get("s", 0) % len(sts)]
            errors0 = sum(p_.solver.faults_fired.get("error_reply", 0) for p_ in world.procs)
            try:
                step(i, o)
            except Violation as v:
                ref_ = st_.proc.solver
                errors1 = sum(p_.solver.faults_fired.get("error_reply", 0) for p_ in world.procs)
                if not (faulty and o["op"] != "shortcut" and errors1 > errors0 and ":raised:" in v.sig
                        and not ref_.dead and not ref_.illegal):
                    raise
                # The solver answered (error ...) to ONE command of this call and did not execute it; the
                # call raised.  The solver is alive and in sync, so the history goes on with the full
                # oracle: what the call did before the refused command stays done, the rest never happened.
                probe("continued_after_error_reply")
                state["strict"] = True      # the one injected error is over: nothing may go wrong from here on
                # push(n) / pop(n) are one command each: refused means no level was added or removed.
                # The only level beyond the user's own is the one a one-shot query left to be popped
                # later (by this call, if the refused command was that pop; or a new one).
                d_ = ref_.depth() - st_.model.depth
                st_.extra, st_.pending, st_.sat_mode = [], d_ == 1, False
                check_stream(st_, "%s@%d (refused by the solver)" % (o["op"], i))
        for st in sts:
            ref = st.proc.solver
            # non-triviality: commands after a get-value, re-declaration after pop/reset
            names = [e["name"] for e in ref.log]
            if "get-value" in names and names.index("get-value") < len(names) - 1:
                state["nontrivial"] = True
                probe("command_after_get_value")
            decl = {}
            for e in ref.log:
                if e["name"] in ("declare-fun", "declare-const"):
                    key = e["src"].split()[1]
                    decl[key] = decl.get(key, 0) + 1
            if any(v > 1 for v in decl.values()):
                state["nontrivial"] = True
                probe("redeclare_after_pop_or_reset")
            api("exit", st.solver.exit)
            if ref.illegal:
                check_stream(st, "exit")
            trace.append(tuple((e["name"], e["reply"]) for e in ref.log))

    def _shortcut(o, i):
        f = bp.build(o["f"], env)
        kind = o["kind"]
        n0 = len(world.procs)
        fn = getattr(sc, kind)
        try:
            got = api("shortcut." + kind, fn, f, solver_name="ref1", logic=logic,
                      allowed=(SolverReturnedUnknownResultError,))
        except SolverReturnedUnknownResultError:
            if any(p.solver.mode == "unknown" or any(e.get("reply") == "unknown" for e in p.solver.log)
                   for p in world.procs[n0:]):
                # the reference solver itself gave up (search space above its row limit)
                probe("shortcut_solver_said_unknown")
                return
            raise Violation("C17:spurious-unknown", "shortcut %s raised unknown" % kind)
        probe("shortcut_" + kind)
        if kind == "get_model":
            sat = _sat([o["f"]])
            if (got is not None) != sat:
                raise Violation("C17:shortcut-verdict", "get_model(%s) returned %s, formula is %s" %
                                (bp.pretty(o["f"]), "a model" if got is not None else None, "sat" if sat else "unsat"))
            if got is not None:
                need = bp.symbols_of(o["f"])
                declared = {n for p in world.procs[n0:] for lv in p.solver.levels for n in lv.funs}
                seen_decl = {e["src"] for p in world.procs[n0:] for e in p.solver.log
                             if e["name"] in ("declare-fun", "declare-const")}
                a = {}
                for n in need:
                    sym = mgr.get_symbol(n)
                    if sym not in got and any((" %s " % bp.smt_symbol(n)) in d for d in seen_decl):
                        raise Violation("C17:model-missing-symbol", "shortcut get_model: no value for %r" % n)
                    a[n] = got.get_value(sym).constant_value()
                if not bp.evaluate(o["f"], a):
                    raise Violation("C17:model-unsat", "shortcut get_model returned a model falsifying the formula")
        else:
            q = o["f"] if kind != "is_valid" else ["not", o["f"]]
            sat = _sat([q])
            want = sat if kind == "is_sat" else not sat
            if got != want:
                raise Violation("C17:shortcut-verdict", "%s(%s) returned %s, truth %s" %
                                (kind, bp.pretty(o["f"]), got, want))
        for p in world.procs[n0:]:
            if p.solver.illegal:
                no, why = p.solver.illegal[0]
                raise Violation("C17:illegal-stream:" + why.split(":")[0].split(" ")[0],
                                "shortcut %s: reference solver rejected command #%d: %s" % (kind, no, why))
            trace.append(tuple((e["name"], e["reply"]) for e in p.solver.log))

    ended = "ok"
    with Seams(world):
        try:
            kernel.run_main(run)
        except SimDeadlock as d:
            ff = faults_fired()
            if faulty and (ff.get("stall") or ff.get("die_before_reply") or ff.get("die_after_reply")
                           or ff.get("die_at_start")):
                ended = "blocked-after-fault"
            else:
                raise Violation("C17:blocks-forever", "a call blocked with the solver idle: %s %s" % (d.reason, d.detail))
        except Violation as v:
            ff = faults_fired()
            if state.get("strict"):
                raise
            if faulty and ff and ":raised:" in v.sig:
                # a call raised after an injected fault: allowed (never wrong data)
                ended = "raised-after-fault"
                probe("raised_after_fault")
            elif faulty and ff and v.sig.startswith(("C17:illegal-stream", "C17:push-pop-not-mirrored", "C17:unread-reply",
                                                     "C17:blocks-forever")):
                ended = "diverged-after-fault"
            else:
                raise
    io = world.io
    for k in ("short_reads", "short_read_inside_reply", "short_writes"):
        if io.get(k):
            probes[k] = probes.get(k, 0) + io[k]
    return {"digest": digest_of(trace), "nontrivial": state["nontrivial"], "probes": probes,
            "faults": faults_fired(), "sim_time": kernel.now, "steps": kernel.steps,
            "sample": {"ops": describe(plan), "ended": ended,
                       "stream": [e["src"][:70] + " -> " + str(e["reply"])[:40]
                                  for e in (world.procs[0].solver.log if world.procs else [])][:40]}}
