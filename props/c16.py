"""C16 - scripts and incremental solvers track exactly the live assertions.

Workload: one legal SMT-LIB command history (assert, assert-soft :id :weight,
push n, pop n, reset-assertions, check-sat, objectives) interleaved with
solver-only steps (is_sat / is_valid / is_unsat, solve under assumptions,
reading .assertions).  The same history is fed
  (a) step by step to the real IncrementalTrackingSolver over the BruteSolver
      back end (which keeps its own stack: the "disk"),
  (b) to SmtLibScript, built directly and through text -> SmtLibParser,
  (c) to the reference StackModel.
Schedule dimension: *when* the pending pop of a one-shot query is resolved
(which later operation meets it) and which model the back end returns.
"""
from io import StringIO

from dsim import bp
from dsim.runner import Violation, api, digest_of
from dsim.stackmodel import StackModel

ID = "C16"
LEVEL = "exploration"
GC_CONTROL = True
RULE = ("one case = one generated command history (5-40 steps over assert, assert-soft with ids/weights, "
        "push/pop n in 0..2 (legal), reset-assertions, check-sat, objectives, is_sat/is_valid/is_unsat, "
        "solve under assumptions, reads of .assertions) executed on the real tracking solver, on SmtLibScript "
        "(direct and text->parser) and on the reference stack model. Non-trivial: the history contains a "
        "multi-level push or pop, or a one-shot query followed (without an intervening read) by a stack "
        "operation, or a soft group spanning >= 2 frames. Distinct: digest of the op sequence + observations.")
COMPONENTS = {
    "real": ["pysmt.solvers.solver.IncrementalTrackingSolver (push/pop/add_assertion/reset_assertions/solve/assertions)",
             "pysmt.solvers.solver.Solver.is_sat/is_valid/is_unsat", "pysmt.decorators.clear_pending_pop",
             "pysmt.smtlib.script.SmtLibScript.get_last_formula/get_strict_formula",
             "pysmt.smtlib.parser.SmtLibParser.get_script", "pysmt.optimization.goal.*",
             "pysmt.solvers.eager.EagerModel"],
    "stub": ["solver back end: dsim.brute.BruteSolver proxies (_push/_pop/_add_assertion/_reset_assertions/_solve) "
             "over an exhaustive finite-domain enumerator with tape-chosen models"],
}
ASSUMPTIONS = [
    "back end follows the in-tree native convention (z3): proxies wrapped in clear_pending_pop, non-literal "
    "assumptions via push/add_assertion/pending_pop, pop below level 0 is an error",
    "objectives and soft assertions live on the assertion stack (OptiMathSAT/z3 convention); a soft group is "
    "positioned where its first live clause was asserted",
    "formulas are sampled: Bool and BV(1..2) terms of depth <= 2 over <= 4 symbols",
]
TIERS = {
    "quick": {"runs": 50000, "budget_s": 75, "max_ops": 40},
    "thorough": {"runs": 1500000, "budget_s": 900, "max_ops": 60},
}

SOLVER_ONLY = ("is_sat", "is_valid", "is_unsat", "solve_assuming", "read", "oneshot_fails", "interrupted_read", "other")
SCRIPT_ONLY = ("assert_soft", "goal")


def gen_plan(tape, cfg):
    nsym = tape.rint(2, 4, "nsym")
    symbols = {}
    for i in range(nsym):
        k = tape.draw(3, "symsort")
        symbols["s%d" % i] = bp.BOOL if k == 0 else bp.BV(k)
    if not any(s == bp.BOOL for s in symbols.values()):
        symbols["s0"] = bp.BOOL
    ctx = bp.GenCtx(symbols, bv=True)
    bvw = ctx.bv_widths()
    n = tape.rint(5, cfg.get("max_ops", 40), "nops")
    depth = 0
    ops = []
    # swarm: which op kinds are enabled in this run
    kinds = [(6, "assert"), (3, "push"), (3, "pop"), (1, "reset"), (3, "check")]
    for w, k in [(2, "assert_soft"), (2, "goal"), (3, "is_sat"), (1, "is_valid"), (1, "is_unsat"),
                 (2, "solve_assuming"), (2, "read"), (1, "oneshot_fails"), (1, "interrupted_read"), (2, "other")]:
        if tape.chance(2, 3, "enable." + k):
            kinds.append((w, k))
    for _ in range(n):
        k = tape.weighted(kinds, "op")
        if k == "assert":
            ops.append({"op": "assert", "f": bp.gen_term(tape, bp.BOOL, 2, ctx),
                        "api": tape.choice(["add_assertion", "add_assertion", "add_assertions", "named"], "assert.api")})
        elif k == "assert_soft":
            gid = tape.choice([None, "g1", "g2", "I"], "soft.id")     # "I" is the parser's default group id
            w = tape.choice([None, 1, 2, 5], "soft.w")
            prev_soft = [po for po in ops if po["op"] == "assert_soft"]
            if prev_soft and tape.chance(1, 3, "soft.repeat"):
                # the same clause soft-asserted again (same or another group, same or another weight)
                po = tape.choice(prev_soft, "soft.repeat.which")
                ops.append({"op": "assert_soft", "f": po["f"], "id": po["id"] if tape.chance(2, 3, "soft.same_id") else gid,
                            "w": po["w"] if tape.chance(1, 2, "soft.same_w") else w})
            else:
                ops.append({"op": "assert_soft", "f": bp.gen_term(tape, bp.BOOL, 1, ctx), "id": gid, "w": w})
        elif k == "push":
            lv = tape.weighted([(5, 1), (3, 2), (1, 0)], "push.n")
            ops.append({"op": "push", "n": lv})
            depth += lv
        elif k == "pop":
            lv = tape.weighted([(5, 1), (3, 2), (1, 0)], "pop.n")
            if lv > depth:
                if depth == 0 and lv > 0:
                    # nothing to pop: make it a push instead (keeps histories deep)
                    ops.append({"op": "push", "n": lv})
                    depth += lv
                    continue
                lv = depth
            ops.append({"op": "pop", "n": lv})
            depth -= lv
        elif k == "reset":
            ops.append({"op": "reset"})
            depth = 0
        elif k == "check":
            ops.append({"op": "check"})
        elif k == "goal":
            if not bvw:
                ops.append({"op": "check"})
                continue
            w = tape.choice(bvw, "goal.w")
            gk = tape.choice(["minimize", "maximize", "minmax", "maxmin"], "goal.kind")
            nt = 1 if gk in ("minimize", "maximize") else tape.rint(1, 3, "goal.nterms")
            ops.append({"op": "goal", "kind": gk, "signed": bool(tape.draw(2, "goal.signed")),
                        "gid": tape.choice([None, None, "o1", "o2"], "goal.id"),
                        "id_first": bool(tape.draw(2, "goal.id_first")),
                        "t": [bp.gen_term(tape, bp.BV(w), 1, ctx) for _ in range(nt)]})
        elif k in ("is_sat", "is_valid", "is_unsat"):
            ops.append({"op": k, "f": bp.gen_term(tape, bp.BOOL, 2, ctx)})
        elif k == "solve_assuming":
            na = tape.rint(1, 2, "assume.n")
            fs = []
            for _ in range(na):
                if tape.chance(1, 2, "assume.literal?"):
                    bs = ctx.syms_of(bp.BOOL)
                    lit = ["sym", tape.choice(bs, "assume.sym"), bp.BOOL]
                    if tape.chance(1, 2, "assume.neg"):
                        lit = ["not", lit]
                    fs.append(lit)
                else:
                    fs.append(bp.gen_term(tape, bp.BOOL, 1, ctx))
            ops.append({"op": "solve_assuming", "fs": fs})
        elif k == "read":
            ops.append({"op": "read"})
        elif k == "interrupted_read":
            ops.append({"op": "interrupted_read"})
        elif k == "other":
            # a SECOND live solver object of the same class, used in between (no nesting discipline)
            ops.append({"op": "other", "what": tape.choice(["push", "pop", "assert", "is_sat", "read"], "other.what"),
                        "f": bp.gen_term(tape, bp.BOOL, 1, ctx)})
        elif k == "oneshot_fails":
            # a one-shot query that raises (the back end cannot convert the formula, or answers
            # unknown) must also leave the assertion list as it found it
            ops.append({"op": "oneshot_fails", "q": tape.choice(["is_sat", "is_valid", "is_unsat"], "fail.q"),
                        "how": tape.choice(["convert", "unknown"], "fail.how"),
                        "f": bp.gen_term(tape, bp.BOOL, 1, ctx)})
    plan = {"symbols": symbols, "ops": ops,
            "assumption_style": tape.choice(["z3", "native"], "assumption_style"),
            "policy": tape.choice(["uniform", "first"], "policy")}
    if tape.chance(1, 80, "backend.portfolio"):
        # a second concrete tracking solver: the real Portfolio (its proxies differ: _reset_assertions
        # is not wrapped in clear_pending_pop) over two simulated member processes
        plan["backend"] = "portfolio"
        plan["ops"] = [o for o in ops if o["op"] not in ("oneshot_fails", "interrupted_read", "other")][:14]
        plan["delays"] = [tape.choice([0.0, 0.5, 0.5, 1.0], "pf.delay") for _ in range(2)]
    return plan


def shrink_plan(plan):
    for i, o in enumerate(plan["ops"]):
        for key in ("f",):
            if key in o:
                for c in bp.shrink_candidates(o[key]):
                    p = dict(plan)
                    p["ops"] = plan["ops"][:i] + [dict(o, **{key: c})] + plan["ops"][i + 1:]
                    yield p
        if o["op"] in ("push", "pop") and o["n"] > 1:
            p = dict(plan)
            p["ops"] = plan["ops"][:i] + [dict(o, n=o["n"] - 1)] + plan["ops"][i + 1:]
            yield p


def describe(plan):
    out = []
    for o in plan["ops"]:
        k = o["op"]
        if k == "oneshot_fails":
            out.append("%s %s (raises: %s)" % (o["q"], bp.pretty(o["f"]), o["how"]))
        elif "f" in o:
            out.append("%s %s" % (k, bp.pretty(o["f"])) + ("" if k != "assert_soft" else
                       " :id %s :weight %s" % (o["id"], o["w"])))
        elif k in ("push", "pop"):
            out.append("%s %d" % (k, o["n"]))
        elif k == "goal":
            out.append("%s%s %s" % (o["kind"], " :signed" if o["signed"] else "",
                                     " ".join(bp.pretty(t) for t in o["t"])))
        elif k == "solve_assuming":
            out.append("solve assuming " + ", ".join(bp.pretty(t) for t in o["fs"]))
        else:
            out.append(k)
    return out


# --------------------------------------------------------------------------

def _fresh_env():
    from pysmt.environment import reset_env
    return reset_env()


def _norm_ops(plan):
    """legalise a (possibly shrunk) op list: clamp pops to the current depth"""
    depth = 0
    out = []
    for o in plan["ops"]:
        o = dict(o)
        if o["op"] == "push":
            depth += o["n"]
        elif o["op"] == "pop":
            o["n"] = min(o["n"], depth)
            depth -= o["n"]
        elif o["op"] == "reset":
            depth = 0
        out.append(o)
    return out


def execute(plan, tape):
    ops = _norm_ops(plan)
    symbols = plan["symbols"]
    probes = {}
    trace = []

    def probe(n):
        probes[n] = probes.get(n, 0) + 1

    if plan.get("backend") == "portfolio":
        nontrivial = _portfolio_half(plan, ops, symbols, tape, probe, trace)
        probe("portfolio_backend")
    else:
        nontrivial = _solver_half(plan, ops, symbols, tape, probe, trace)
    nt2 = _script_half(plan, ops, symbols, probe, trace)
    return {"digest": digest_of(trace), "nontrivial": bool(nontrivial or nt2), "probes": probes,
            "faults": {}, "sim_time": 0.0, "steps": len(ops),
            "sample": {"ops": describe({"ops": ops}), "assumption_style": plan["assumption_style"]}}


def _solver_half(plan, ops, symbols, tape, probe, trace):
    from pysmt.logics import QF_BV
    from dsim.brute import BruteSolver, Table
    env = _fresh_env()
    mgr = env.formula_manager
    for n, s in symbols.items():
        mgr.Symbol(n, bp.to_pysmt_type(s, env))
    table = Table({n: bp.domain(s) for n, s in symbols.items()})
    solver = BruteSolver(env, QF_BV, table=table, tape=tape, policy=plan["policy"],
                         assumption_style=plan["assumption_style"])
    model = StackModel()
    tok_f = {}      # op index -> FNode
    tok_bp = {}     # op index -> blueprint
    nontrivial = False
    unresolved_oneshot = False   # a one-shot query happened and nothing has met its pending pop yet
    other = {"solver": None, "model": None, "tok": None}

    def live_bps():
        return [tok_bp[i] for i in model.live_assertions()]

    def truth(extra=()):
        return bp.satisfiable(live_bps() + list(extra), symbols)

    def observe(where):
        got = api("solver.assertions", lambda: list(solver.assertions))
        want = [tok_f[i] for i in model.live_assertions()]
        if len(got) != len(want) or any(g is not w for g, w in zip(got, want)):
            raise Violation("C16:solver:assertions-mismatch",
                            "after %s: solver.assertions has %d items %s, model has %d %s" %
                            (where, len(got), [str(g) for g in got][:6], len(want), [str(w) for w in want][:6]))
        back = solver.b_live()
        if len(back) != len(want) or any(g is not w for g, w in zip(back, want)):
            raise Violation("C16:solver:backend-mismatch",
                            "after %s: back end holds %d assertions %s, model has %d" %
                            (where, len(back), [str(g) for g in back][:6], len(want)))
        if solver.b_depth() != model.depth:
            raise Violation("C16:solver:backend-depth",
                            "after %s: back end depth %d, model depth %d" % (where, solver.b_depth(), model.depth))

    for i, o in enumerate(ops):
        k = o["op"]
        if k in SCRIPT_ONLY:
            continue
        stack_op = k in ("push", "pop", "reset", "assert")
        if unresolved_oneshot and k not in ("read", "interrupted_read", "other"):
            if stack_op and (k not in ("push", "pop") or o["n"] > 0):
                nontrivial = True
                probe("pending_pop_before_" + k)
            unresolved_oneshot = False
        if k == "assert":
            f = bp.build(o["f"], env)
            tok_f[i], tok_bp[i] = f, o["f"]
            how = o.get("api", "add_assertion")
            if how == "add_assertions":
                api("add_assertions", solver.add_assertions, [f])
            elif how == "named":
                api("add_assertion(named)", solver.add_assertion, f, named="n%d" % i)
            else:
                api("add_assertion", solver.add_assertion, f)
            model.assert_(i)
        elif k == "push":
            api("push", solver.push, o["n"])
            model.push(o["n"])
            if o["n"] > 1:
                nontrivial = True
                probe("multi_level_push")
        elif k == "pop":
            if o["n"] > 1:
                nontrivial = True
                probe("multi_level_pop")
            api("pop", solver.pop, o["n"])
            model.pop(o["n"])
        elif k == "reset":
            if model.depth > 0:
                probe("reset_at_depth>0")
            api("reset_assertions", solver.reset_assertions)
            model.reset_assertions()
        elif k == "check":
            got = api("solve", solver.solve)
            want = truth()
            if got != want:
                raise Violation("C16:solver:verdict",
                                "solve() returned %s but the live assertions are %s" %
                                (got, "satisfiable" if want else "unsatisfiable"))
        elif k in ("is_sat", "is_valid", "is_unsat"):
            f = bp.build(o["f"], env)
            got = api(k, getattr(solver, k), f)
            if k == "is_sat":
                want = truth([o["f"]])
            elif k == "is_unsat":
                want = not truth([o["f"]])
            else:
                want = not truth([["not", o["f"]]])
            if got != want:
                raise Violation("C16:solver:oneshot-verdict", "%s returned %s, truth is %s" % (k, got, want))
            unresolved_oneshot = True
        elif k == "solve_assuming":
            fs = [bp.build(t, env) for t in o["fs"]]
            got = api("solve(assumptions)", solver.solve, fs)
            want = truth(o["fs"])
            if got != want:
                raise Violation("C16:solver:assumption-verdict",
                                "solve(assumptions) returned %s, truth is %s" % (got, want))
            unresolved_oneshot = True
        elif k == "oneshot_fails":
            from pysmt.exceptions import ConvertExpressionError, SolverReturnedUnknownResultError
            import pysmt.typing as T
            f = bp.build(o["f"], env)
            if o["how"] == "convert":
                f = mgr.And(f, mgr.Symbol("outside_table", T.BOOL))
                allowed = (ConvertExpressionError,)
            else:
                solver.fault_plan.setdefault("unknown_at", set()).add(solver.b_counts["solve"] + 1)
                allowed = (SolverReturnedUnknownResultError,)
            try:
                api(o["q"], getattr(solver, o["q"]), f, allowed=allowed)
                raise Violation("C16:solver:failing-oneshot-returned",
                                "%s of an unconvertible/unknown query returned instead of raising" % o["q"])
            except allowed:
                probe("oneshot_raised_" + o["how"])
            solver.fault_plan.get("unknown_at", set()).clear()
            unresolved_oneshot = True
            nontrivial = True
        elif k == "other":
            if other["solver"] is None:
                other["solver"] = BruteSolver(env, QF_BV, table=table, tape=tape, policy="first")
                other["model"] = StackModel()
                other["tok"] = {}
            s2, m2 = other["solver"], other["model"]
            w = o["what"]
            if w == "push":
                api("other.push", s2.push, 1)
                m2.push(1)
            elif w == "pop":
                if m2.depth > 0:
                    api("other.pop", s2.pop, 1)
                    m2.pop(1)
            elif w == "assert":
                f2 = bp.build(o["f"], env)
                other["tok"][i] = f2
                api("other.add_assertion", s2.add_assertion, f2)
                m2.assert_(i)
            elif w == "is_sat":
                api("other.is_sat", s2.is_sat, bp.build(o["f"], env))
            got2 = api("other.assertions", lambda: list(s2.assertions))
            want2 = [other["tok"][j] for j in m2.live_assertions()]
            if len(got2) != len(want2) or any(g is not w_ for g, w_ in zip(got2, want2)):
                raise Violation("C16:solver:assertions-mismatch",
                                "second solver after %s@%d: assertions has %d items %s, model has %d" %
                                (w, i, len(got2), [str(g) for g in got2][:6], len(want2)))
            if s2.b_depth() != m2.depth:
                raise Violation("C16:solver:backend-depth", "second solver after %s@%d: back end depth %d, model depth %d" %
                                (w, i, s2.b_depth(), m2.depth))
            probe("second_solver_interleaved")
            nontrivial = True
            trace.append(("other", w, m2.depth))
            continue
        elif k == "interrupted_read":
            # the user interrupts (KeyboardInterrupt, not an Exception) while the level a one-shot
            # query left behind is being removed; nothing was removed, so it is removed next time
            solver.fault_plan["interrupt_next_pop"] = True
            try:
                list(solver.assertions)
            except KeyboardInterrupt:
                probe("interrupted_deferred_pop")
                nontrivial = True
            solver.fault_plan["interrupt_next_pop"] = False
            observe("interrupted read@%d" % i)
            unresolved_oneshot = False
            trace.append(("interrupted_read", len(model.live_assertions())))
            continue
        elif k == "read":
            observe("read@%d" % i)
            unresolved_oneshot = False
            trace.append(("read", len(model.live_assertions())))
            continue
        # observe after the step: through the API for half of the steps (a read
        # resolves a pending pop, so not reading keeps it pending for the next op)
        if k in ("is_sat", "is_valid", "is_unsat", "solve_assuming", "oneshot_fails"):
            do_read = tape.chance(1, 3, "observe.after.oneshot")
        else:
            do_read = tape.chance(2, 3, "observe.after")
        if do_read:
            observe("%s@%d" % (k, i))
            unresolved_oneshot = False
        trace.append((k, o.get("n"), len(model.live_assertions()), model.depth, do_read))
    observe("end")
    if solver.b_illegal:
        raise Violation("C16:solver:backend-illegal", "back end saw %s" % solver.b_illegal[:3])
    return nontrivial


def _portfolio_half(plan, ops, symbols, tape, probe, trace):
    """the same history on the real Portfolio (members: real SmtLibSolver processes over
    the reference solver, simulated by the kernel); observations: .assertions and verdicts"""
    from pysmt.logics import QF_BV
    from pysmt.solvers.portfolio import Portfolio
    from dsim.kernel import Kernel, SimDeadlock
    from dsim.proc import World, Seams as ProcSeams
    from dsim.mp import Net, Seams as MpSeams
    env = _fresh_env()
    mgr = env.formula_manager
    for n, s_ in symbols.items():
        mgr.Symbol(n, bp.to_pysmt_type(s_, env))
    kernel = Kernel(tape, max_steps=60000, max_time=1e5)
    world = World(kernel, tape)
    net = Net(kernel, tape)
    names = []
    for m, d in enumerate(plan.get("delays", [0.0, 0.5])):
        world.profiles["m%d" % m] = {"check_delay": d, "model_policy": "first"}
        env.factory.add_generic_solver("m%d" % m, ["ref", "m%d" % m], [QF_BV])
        names.append("m%d" % m)
    model = StackModel()
    tok_f, tok_bp = {}, {}
    state = {"nontrivial": False}

    def truth(extra=()):
        fs = [tok_bp[i] for i in model.live_assertions()] + list(extra)
        syms = {}
        for f in fs:
            bp.symbols_of(f, syms)
        return bp.satisfiable(fs, syms)

    def run():
        pf = api("Portfolio()", Portfolio, names, environment=env, logic=QF_BV, incremental=True)
        pending = False

        def observe(where):
            got = api("portfolio.assertions", lambda: list(pf.assertions))
            want = [tok_f[i] for i in model.live_assertions()]
            if len(got) != len(want) or any(g is not w for g, w in zip(got, want)):
                raise Violation("C16:portfolio:assertions-mismatch",
                                "after %s: portfolio.assertions has %d items %s, model has %d %s" %
                                (where, len(got), [str(g) for g in got][:6], len(want), [str(w) for w in want][:6]))
        for i, o in enumerate(ops):
            k = o["op"]
            if k in SCRIPT_ONLY:
                continue
            if pending and k in ("push", "pop", "reset", "assert"):
                state["nontrivial"] = True
                probe("portfolio_pending_pop_before_" + k)
            if k == "assert":
                f = bp.build(o["f"], env)
                tok_f[i], tok_bp[i] = f, o["f"]
                api("portfolio.add_assertion", pf.add_assertion, f)
                model.assert_(i)
            elif k == "push":
                api("portfolio.push", pf.push, o["n"])
                model.push(o["n"])
            elif k == "pop":
                api("portfolio.pop", pf.pop, o["n"])
                model.pop(o["n"])
            elif k == "reset":
                api("portfolio.reset_assertions", pf.reset_assertions)
                model.reset_assertions()
            elif k == "check":
                got = api("portfolio.solve", pf.solve)
                if got != truth():
                    raise Violation("C16:portfolio:verdict", "solve() = %s, live assertions are %s" %
                                    (got, "sat" if truth() else "unsat"))
            elif k in ("is_sat", "is_valid", "is_unsat"):
                f = bp.build(o["f"], env)
                got = api("portfolio." + k, getattr(pf, k), f)
                q = o["f"] if k != "is_valid" else ["not", o["f"]]
                sat = truth([q])
                if got != (sat if k == "is_sat" else not sat):
                    raise Violation("C16:portfolio:oneshot-verdict", "%s returned %s" % (k, got))
                pending = True
                if tape.chance(1, 3, "observe.after.oneshot"):
                    observe("%s@%d" % (k, i))
                    pending = False
                continue
            elif k == "solve_assuming":
                # (the Portfolio does not forward assumptions to its members, so only the assertion
                # list is judged here, not the verdict)
                fs = [bp.build(t_, env) for t_ in o["fs"]]
                api("portfolio.solve(assumptions)", pf.solve, fs)
                probe("portfolio_solve_with_assumptions")
            elif k == "read":
                observe("read@%d" % i)
                pending = False
                continue
            pending = False
            if tape.chance(2, 3, "observe.after"):
                observe("%s@%d" % (k, i))
            trace.append((k, o.get("n"), len(model.live_assertions())))
        observe("end")
        api("portfolio.exit", pf.exit)

    with ProcSeams(world), MpSeams(net):
        try:
            kernel.run_main(run)
        except SimDeadlock as d:
            raise Violation("C16:portfolio:blocks", "a portfolio call never returned: %s %s" % (d.reason, d.detail[:150]))
    return state["nontrivial"]


def _script_half(plan, ops, symbols, probe, trace):
    import pysmt.smtlib.commands as smtcmd
    from pysmt.smtlib.script import SmtLibScript, SmtLibCommand
    from pysmt.smtlib.parser import SmtLibParser
    from pysmt.optimization.goal import (MinimizationGoal, MaximizationGoal, MinMaxGoal,
                                         MaxMinGoal, MaxSMTGoal)
    GOAL_CMD = {"minimize": smtcmd.MINIMIZE, "maximize": smtcmd.MAXIMIZE,
                "minmax": smtcmd.MINMAX, "maxmin": smtcmd.MAXMIN}
    GOAL_CLS = {"minimize": MinimizationGoal, "maximize": MaximizationGoal,
                "minmax": MinMaxGoal, "maxmin": MaxMinGoal}
    env = _fresh_env()
    mgr = env.formula_manager
    model = StackModel()
    model_p = StackModel()      # the parsed route: (assert-soft a) without :id belongs to group I
    nontrivial = False
    # ---- text rendering (own printer)
    lines = ["(set-logic QF_BV)"]
    for j, (n, s) in enumerate(symbols.items()):
        if j % 3 == 1:
            lines.append("(declare-const %s %s)" % (bp.smt_symbol(n), bp.smt_sort(s)))
        else:
            lines.append("(declare-fun %s () %s)" % (bp.smt_symbol(n), bp.smt_sort(s)))
    direct = SmtLibScript()
    built = {}
    scoped = {"dfp": None, "dq": None, "dfp_uses": 0, "dq_declared": False, "dq_defined": False, "reset": False}

    def left_scope():
        for nm in ("dfp", "dq"):
            if scoped[nm] is not None and scoped[nm] > model.depth:
                scoped[nm] = None
    sops = []
    for i, o in enumerate(ops):
        k = o["op"]
        if k in SOLVER_ONLY:
            continue
        sops.append((i, o))
        if k == "assert":
            f = bp.build(o["f"], env)
            # the same assertion in the spellings a script may use (deterministic in the op index)
            ftxt = bp.to_smtlib(o["f"])
            variant = (i * 7 + len(ftxt)) % 9
            # names whose declaration / definition went out of scope with a pop are used again
            if variant == 6 and scoped["dfp"] is None and model.depth > 0 and not scoped["reset"]:
                # (define-fun dfp ((pa Bool)) Bool (and pa f)) in a pushed level, applied at once;
                # after the pop the name is free and may be defined again with another body
                lines.append("(define-fun dfp ((pa Bool)) Bool (and pa %s))" % ftxt)
                lines.append("(assert (dfp true))")
                scoped["dfp"] = model.depth
                scoped["dfp_uses"] += 1
                f = mgr.And(mgr.TRUE(), f)
                if scoped["dfp_uses"] > 1:
                    probe("script_function_redefined_after_pop")
                variant = -1
            elif variant == 7 and scoped["dq"] is None and model.depth > 0 and not scoped["reset"] and not scoped["dq_defined"]:
                # a constant declared in a pushed level ...
                lines.append("(declare-const dq Bool)")
                lines.append("(assert (or dq %s))" % ftxt)
                scoped["dq"] = model.depth
                scoped["dq_declared"] = True
                f = mgr.Or(mgr.Symbol("dq"), f)
                variant = -1
            elif variant == 8 and scoped["dq"] is None and scoped["dq_declared"] and not scoped["reset"]:
                # ... and, once that level is gone, the same name introduced by a definition
                lines.append("(define-fun dq () Bool %s)" % ftxt)
                lines.append("(assert dq)")
                scoped["dq"] = model.depth
                scoped["dq_defined"] = True
                probe("script_name_defined_after_its_declaration_was_popped")
                variant = -1
            direct.add(smtcmd.ASSERT, [f])
            built[i] = f
            if variant == -1:
                pass
            elif variant == 1:
                lines.append("(assert (! %s :named na%d))" % (ftxt, i))
                probe("script_named_assert")
            elif variant == 2:
                lines.append("(define-fun df%d () Bool %s)" % (i, ftxt))
                lines.append("(assert df%d)" % i)
                probe("script_define_fun_assert")
            elif variant == 3:
                lines.append("(assert (let ((lv%d %s)) lv%d))" % (i, ftxt, i))
            else:
                lines.append("(assert %s)" % ftxt)
            model.assert_(i)
            model_p.assert_(i)
        elif k == "assert_soft":
            f = bp.build(o["f"], env)
            params = []
            txt = "(assert-soft %s" % bp.to_smtlib(o["f"])
            if o["w"] is not None:
                params.append((":weight", mgr.Int(o["w"])))
                txt += " :weight %d" % o["w"]
            if o["id"] is not None:
                params.append((":id", o["id"]))
                txt += " :id %s" % o["id"]
            direct.add(smtcmd.ASSERT_SOFT, [f, params])
            lines.append(txt + ")")
            model.assert_soft(o["id"], i, o["w"] if o["w"] is not None else 1)
            model_p.assert_soft(o["id"] if o["id"] is not None else "I", i, o["w"] if o["w"] is not None else 1)
        elif k == "push":
            direct.add(smtcmd.PUSH, [o["n"]])
            lines.append("(push)" if (o["n"] == 1 and i % 3 == 0) else "(push %d)" % o["n"])
            model.push(o["n"])
            model_p.push(o["n"])
            if o["n"] > 1:
                nontrivial = True
        elif k == "pop":
            direct.add(smtcmd.POP, [o["n"]])
            lines.append("(pop)" if (o["n"] == 1 and i % 3 == 1) else "(pop %d)" % o["n"])
            if o["n"] > 1:
                nontrivial = True
                if any(e[0] == "soft" for fr in model.frames[-o["n"]:] for e in fr):
                    probe("pop2_across_soft_group")
            model.pop(o["n"])
            model_p.pop(o["n"])
            left_scope()
        elif k == "reset":
            scoped["reset"] = True
            direct.add(smtcmd.RESET_ASSERTIONS, [])
            lines.append("(reset-assertions)")
            model.reset_assertions()
            model_p.reset_assertions()
        elif k == "check":
            direct.add(smtcmd.CHECK_SAT, [])
            lines.append("(check-sat)")
        elif k == "goal":
            ts = [bp.build(t, env) for t in o["t"]]
            txt_terms = " ".join(bp.to_smtlib(t) for t in o["t"])
            opts = [(":signed", o["signed"])]
            topts = [" :signed"] if o["signed"] else []
            if o.get("gid"):
                # objective options in either order: (minimize t :id o1 :signed) / (... :signed :id o1)
                if o.get("id_first"):
                    opts = [(":id", o["gid"])] + opts
                    topts = [" :id %s" % o["gid"]] + topts
                else:
                    opts = opts + [(":id", o["gid"])]
                    topts = topts + [" :id %s" % o["gid"]]
            if o["kind"] in ("minimize", "maximize"):
                direct.add(GOAL_CMD[o["kind"]], [ts[0], opts])
            else:
                direct.add(GOAL_CMD[o["kind"]], [ts, opts])
            lines.append("(%s %s%s)" % (o["kind"], txt_terms, "".join(topts)))
            model.add_goal(i)
            model_p.add_goal(i)
    text = "\n".join(lines) + "\n"
    parsed = api("parser.get_script", lambda: SmtLibParser(environment=env).get_script(StringIO(text)))

    # soft groups spanning >= 2 frames (non-triviality)
    seen = {}
    for d, fr in enumerate(model.frames):
        for e in fr:
            if e[0] == "soft":
                seen.setdefault(e[1], set()).add(d)
    if any(len(v) >= 2 for v in seen.values()):
        nontrivial = True
        probe("soft_group_spans_frames")

    # third route: the directly built script written out by pySMT's own serialiser and read back
    buf = StringIO()
    api("script.serialize", lambda: direct.serialize(buf, daggify=bool(len(ops) % 2)))
    decls = "".join(l + "\n" for l in lines if l.startswith(("(set-logic", "(declare-")))
    reparsed = api("parser.get_script(serialised)",
                   lambda: SmtLibParser(environment=env).get_script(StringIO(decls + buf.getvalue())))
    for route, script in (("direct", direct), ("parsed", parsed), ("reprinted", reparsed)):
        # token -> objects of this route: the i-th script-expressible op is the
        # i-th non-declaration command of the script
        cmds = [c for c in script.commands
                if c.name not in (smtcmd.SET_LOGIC, smtcmd.DECLARE_FUN, smtcmd.DECLARE_CONST, smtcmd.DEFINE_FUN)]
        # (the mid-script declare-const of the scoped-name spelling exists in the parsed route only)
        if len(cmds) != len(sops):
            raise Violation("C16:script:%s:command-count" % route,
                            "script has %d commands for %d operations" % (len(cmds), len(sops)))
        cmd_of = {i: c for (i, _), c in zip(sops, cmds)}
        for i, f in built.items():
            # whatever the spelling (plain, named, through a definition, through a let), the command
            # asserts the formula itself
            if cmd_of[i].name != smtcmd.ASSERT or cmd_of[i].args[0] is not f:
                raise Violation("C16:script:%s:assert-content" % route,
                                "command %s %s for the assertion %s" % (cmd_of[i].name, cmd_of[i].args[0], f))
        got_f, got_goals = api("get_last_formula(%s)" % route,
                               lambda: script.get_last_formula(mgr=mgr, return_optimizations=True))
        want_f = mgr.And([cmd_of[i].args[0] for i in model.live_assertions()])
        if got_f is not want_f:
            raise Violation("C16:script:%s:last-formula" % route,
                            "get_last_formula = %s, live assertions = %s" % (got_f, want_f))
        plain = api("get_last_formula(%s,plain)" % route, lambda: script.get_last_formula(mgr=mgr))
        if plain is not want_f:
            raise Violation("C16:script:%s:last-formula-plain" % route,
                            "get_last_formula() = %s, live assertions = %s" % (plain, want_f))
        want_goals = (model if route == "direct" else model_p).live_goals()
        if len(got_goals) != len(want_goals):
            raise Violation("C16:script:%s:goal-count" % route,
                            "script reports %d goals %s, model has %d" %
                            (len(got_goals), list(got_goals), len(want_goals)))
        for g, w in zip(got_goals, want_goals):
            if w[0] == "goal":
                o = ops[w[1]]
                c = cmd_of[w[1]]
                if type(g) is not GOAL_CLS[o["kind"]]:
                    raise Violation("C16:script:%s:goal-kind" % route, "goal %r for %s" % (g, o["kind"]))
                if o["kind"] in ("minimize", "maximize"):
                    okt = g.term() is c.args[0]
                else:
                    okt = list(g.terms) == list(c.args[0])
                if not okt or bool(g.signed) != o["signed"]:
                    raise Violation("C16:script:%s:goal-content" % route,
                                    "goal %r (signed=%s) does not match command %s signed=%s" %
                                    (g, g.signed, o["kind"], o["signed"]))
            else:
                if type(g) is not MaxSMTGoal:
                    raise Violation("C16:script:%s:goal-kind" % route, "goal %r for soft group %s" % (g, w[1]))
                want_soft = [(cmd_of[ci].args[0], wt) for (ci, wt) in w[2]]
                got_soft = [(cl, wf.constant_value()) for (cl, wf) in g.soft]
                if len(got_soft) != len(want_soft) or any(
                        a[0] is not b[0] or a[1] != b[1] for a, b in zip(got_soft, want_soft)):
                    raise Violation("C16:script:%s:soft-group" % route,
                                    "group %s has clauses %s, model %s" %
                                    (w[1], [(str(a), str(b)) for a, b in got_soft],
                                     [(str(a), str(b)) for a, b in want_soft]))
        if route == "direct" and built:
            # the script is edited in place (same number of commands) and asked again
            li = max(built)
            c_old = cmd_of[li]
            pos = max(j for j, c_ in enumerate(script.commands) if c_ is c_old)
            newf = mgr.Not(c_old.args[0])
            script.commands[pos] = SmtLibCommand(smtcmd.ASSERT, [newf])
            try:
                got2 = api("get_last_formula(edited)", lambda: script.get_last_formula(mgr=mgr))
                want2 = mgr.And([(newf if i == li else cmd_of[i].args[0]) for i in model.live_assertions()])
                if got2 is not want2:
                    raise Violation("C16:script:direct:last-formula-after-edit",
                                    "after replacing an assert in place get_last_formula() = %s, live assertions = %s" % (got2, want2))
            finally:
                script.commands[pos] = c_old
            probe("script_edited_in_place")
        # strict formula, where defined
        names = [c.name for c in script.commands]
        if smtcmd.PUSH not in names and smtcmd.POP not in names and names.count(smtcmd.CHECK_SAT) == 1:
            # (reset-assertions is accepted by get_strict_formula: what it retracted is not asserted)
            sf = api("get_strict_formula(%s)" % route, lambda: script.get_strict_formula(mgr=mgr))
            if sf is not want_f:
                raise Violation("C16:script:%s:strict-formula" % route, "%s vs %s" % (sf, want_f))
            probe("strict_formula_checked")
    trace.append(("script", len(sops), len(model.live_assertions()), len(model.live_goals())))
    return nontrivial
