"""C15 - a failing call leaves no trace: later calls behave as if it never happened.

Twin environments A and B receive the same history of public-API calls
(construction, queries, transformations, parsing on a long-lived parser,
script and solver objects).  At tape-chosen points a *failing* call - one of
the natural errors the statement lists, placed at a tape-chosen position of a
traversal - is made on A only.  Every later result on A must equal the result
on B (modulo AC order and fresh names; same exception class if both raise).
"""
import json
from io import StringIO

from dsim import bp, richgen, calls
from dsim.runner import Violation, digest_of
from dsim.canon import Canon

ID = "C15"
LEVEL = "fault_enumeration"
GC_CONTROL = True
RULE = ("one case = a twin run: 10-40 public-API calls on two environments A and B (the C14 call catalogue, valid "
        "scripts on a long-lived SmtLibParser, SmtLibScript queries, a tracking solver object) with 1-5 failing calls "
        "made on A only: ill-typed construction, ill-typed substitution at a chosen depth, unsupported operator (custom "
        "node type) under any service, undefined symbol, malformed / truncated / failing-stream SMT-LIB or HR input, "
        "unsupported command, symbol redefinition, solver conversion error or 'unknown' inside a one-shot query. "
        "Non-trivial: a failing call really raised and a later probe touched a formula sharing a non-leaf node with the "
        "failing call's formula (or the same parser / script / solver object). Distinct: digest of ops, fault kinds and "
        "canonical results.")
COMPONENTS = {
    "real": ["Environment services (see C14)", "FormulaManager.create_node / symbol table", "DagWalker / TreeWalker state",
             "SmtLibParser (long-lived, get_script) and Tokenizer", "HRParser", "SmtLibScript / SmtLibCommand.serialize",
             "IncrementalTrackingSolver + Solver.is_sat/is_valid (over the BruteSolver back end)"],
    "stub": ["solver back end: dsim.brute.BruteSolver (raises ConvertExpressionError for symbols outside its table, "
             "injected 'unknown')", "input streams: StringIO subclasses failing with OSError at a chosen offset"],
}
ASSUMPTIONS = [
    "only the natural errors enumerated by the statement are injected (no KeyboardInterrupt/MemoryError at arbitrary "
    "byte codes)",
    "unobservable leftovers (an ill-typed node in the hash-consing table, consumed node ids or fresh names) are not "
    "violations: only results of later public calls are compared, modulo AC order and fresh names",
    "a symbol declared by a script that later fails to parse stays in the environment's symbol table: recorded as "
    "known finding C15:failed-parse:declared-symbol-survives, probed separately",
]
TIERS = {
    "quick": {"runs": 8000, "budget_s": 90},
    "thorough": {"runs": 300000, "budget_s": 900},
}

FAULT_KINDS = ["illtyped_construct", "illtyped_subst", "unsupported", "undefined_symbol", "bad_smtlib", "bad_hr",
               "unsupported_command", "redefine_symbol", "stream_eio", "solver_convert", "solver_unknown",
               "script_strict", "parse_declares", "bad_interpretation", "arith_error_subst", "sl_error", "bad_size_measure",
               "nonincr_is_sat", "readd_solver", "model_incomplete", "bad_preference_list", "solver_reset_refused", "script_evaluate", "solver_pop_too_many", "printer_unsupported", "bad_cmdgen",
               "bad_assignment_list"]
SERVICES = ["simplify", "substitute", "free_vars", "atoms", "theory", "types", "size", "serialize", "to_smtlib",
            "nnf", "cnf", "aig", "prenex", "is_qf", "logic", "model_value"]


# ------------------------------------------------------------------ script texts

def script_text(tape, term, symbols, with_define=True):
    """a valid SMT-LIB script asserting `term` (Boolean), with pushes and a define-fun"""
    syms = bp.symbols_of(term)
    lines = ["(set-logic ALL)"] if False else []
    bound = {n for x in richgen.subterms(term) if x[0] in bp.QUANT for n, _ in x[1]}
    for n, s in syms.items():
        if n in bound:
            continue
        if bp.is_fun(s):
            lines.append("(declare-fun %s (%s) %s)" % (bp.smt_symbol(n), " ".join(bp.smt_sort(a) for a in s[1]),
                                                       bp.smt_sort(s[2])))
        else:
            lines.append("(declare-fun %s () %s)" % (bp.smt_symbol(n), bp.smt_sort(s)))
    if with_define and tape.chance(1, 2, "script.define"):
        lines.append("(define-fun dfn ((pa Int) (pb Bool)) Bool (or pb (> pa 0)))")
        lines.append("(assert (dfn 3 true))")
    if tape.chance(1, 2, "script.push"):
        lines.append("(push 1)")
        lines.append("(assert %s)" % bp.to_smtlib(term))
        if tape.chance(1, 2, "script.pop"):
            lines.append("(pop 1)")
            lines.append("(assert (let ((lv %s)) (and lv lv)))" % bp.to_smtlib(term))
    else:
        lines.append("(assert %s)" % bp.to_smtlib(term))
    lines.append("(check-sat)")
    return "\n".join(lines) + "\n"


MALFORMED_DECLS = ["(declare-fun zz_m () Int Real)\n", "(declare-fun zz_m () Bool", "(declare-const zz_m Int Int)\n",
                   "(declare-const zz_m Int", "(define-fun zz_m () Int 3 4)\n", "(declare-fun zz_m (Int) Bool Bool)\n",
                   "(declare-fun zz_m () (Array Int))\n", "(declare-fun zz_m () Int\n(check-sat)\n"]


def corrupt(tape, text):
    """malformed variant of a script: truncate / delete a token / unbalance"""
    k = tape.choice(["truncate", "drop_token", "dup_paren", "unbalanced_bar", "unbalanced_quote", "garbage"], "corrupt")
    if k == "truncate":
        cut = tape.rint(1, max(1, len(text) - 2), "corrupt.at")
        return text[:cut]
    toks = text.split(" ")
    if k == "drop_token" and len(toks) > 2:
        i = tape.rint(1, len(toks) - 1, "corrupt.tok")
        return " ".join(toks[:i] + toks[i + 1:])
    if k == "dup_paren":
        i = tape.rint(0, len(text) - 1, "corrupt.at")
        return text[:i] + ")" + text[i:]
    if k == "unbalanced_bar":
        i = tape.rint(0, len(text) - 1, "corrupt.at")
        return text[:i] + "|" + text[i:]
    if k == "unbalanced_quote":
        i = tape.rint(0, len(text) - 1, "corrupt.at")
        return text[:i] + '"' + text[i:]
    i = tape.rint(0, len(text) - 1, "corrupt.at")
    return text[:i] + " (foo-bar ) ) " + text[i:]


class FailingStream(StringIO):
    """text stream whose read raises OSError once `limit` characters have been delivered"""

    def __init__(self, text, limit):
        StringIO.__init__(self, text)
        self._limit = limit
        self._n = 0

    def read(self, n=-1):
        if self._n >= self._limit:
            raise OSError(5, "Input/output error")
        r = StringIO.read(self, n)
        self._n += len(r)
        return r


# ------------------------------------------------------------------ generation

def _embed_xnode(tape, term):
    """replace a Boolean sub-term at a chosen position by xnode(sub, sub)"""
    subs = [x for x in richgen.subterms(term) if bp.sort_of(x) == bp.BOOL and x[0] not in bp.QUANT]
    target = subs[tape.draw(len(subs), "xnode.pos")]
    tj = json.dumps(target)
    done = [False]

    def rep(t):
        if not done[0] and json.dumps(t) == tj:
            done[0] = True
            return ["xnode", t, t]
        if t[0] in bp.LEAVES:
            return t
        if t[0] == "app":
            return t[:4] + [rep(x) for x in t[4:]]
        if t[0] in bp.QUANT:
            return [t[0], t[1], rep(t[2])]
        if t[0] == "arrayval":
            return t
        base = 1 + bp.PARAM_OPS.get(t[0], 0)
        return t[:base] + [rep(x) for x in t[base:]]
    return rep(term)


def gen_plan(tape, cfg):
    symbols = richgen.default_symbols(tape)
    ctx = richgen.RichCtx(symbols)
    pool = []
    for i in range(tape.rint(5, 9, "pool.n")):
        if i < 3 or tape.chance(1, 2, "pool.base?"):
            pool.append(richgen.gen(tape, bp.BOOL, tape.rint(1, 3, "pool.depth"), ctx))
        else:
            a = pool[tape.draw(len(pool), "pool.a")]
            b = pool[tape.draw(len(pool), "pool.b")]
            pool.append([tape.choice(["and", "or", "iff", "implies"], "pool.comb"), a, b])
    enabled = [k for k in FAULT_KINDS if tape.chance(2, 3, "enable." + k)] or ["illtyped_subst"]
    # (the custom node type reaches 16 different services: it gets three tickets)
    enabled += [k for k in enabled if k == "unsupported"] * 2
    nops = tape.rint(12, 45, "nops")
    nfaults = tape.rint(2, 6, "nfaults")
    fault_at = sorted({tape.draw(max(1, nops - 2), "fault.at") for _ in range(nfaults)})
    ops = []
    pending_retry = []
    bvsyms = {n: s for n, s in symbols.items() if s == bp.BOOL or (bp.is_bv(s) and s[1] <= 3)}
    sctx = bp.GenCtx(bvsyms, bv=True)
    for j in range(nops):
        if j in fault_at:
            kind = tape.choice(enabled, "fault.kind")
            i = tape.draw(len(pool), "fault.formula")
            o = {"op": "fault", "kind": kind, "i": i}
            t = pool[i]
            if kind == "illtyped_construct":
                o["ctor"] = tape.choice(["And", "Plus", "BVAdd", "Ite", "LE", "Equals", "Select", "Not", "BVConcat",
                                         "Function", "Store", "StrLength", "BVULT", "BVSLE", "BVComp", "Implies",
                                         "ToReal", "StrConcat"], "ctor")
                o["a"] = richgen.gen(tape, tape.choice([bp.BOOL, bp.INT, bp.REAL, bp.STRING, bp.BV(3)], "ill.sort"), 1, ctx)
                o["b"] = richgen.gen(tape, tape.choice([bp.BOOL, bp.INT, bp.REAL, bp.BV(2)], "ill.sort2"), 1, ctx)
            elif kind == "illtyped_subst":
                syms = [x for x in richgen.subterms(t) if x[0] == "sym" and not bp.is_fun(x[2]) and not bp.is_array(x[2])]
                if not syms:
                    o["kind"] = "undefined_symbol"
                    o["name"] = "nope"
                else:
                    key = tape.choice(syms, "ill.key")
                    others = [s for s in (bp.BOOL, bp.INT, bp.REAL, bp.STRING) if bp.sort_key(s) != bp.sort_key(key[2])]
                    o["key"] = key
                    o["val"] = richgen.gen(tape, tape.choice(others, "ill.valsort"), 1, ctx)
                    o["mss"] = bool(tape.draw(2, "ill.mss"))
            elif kind == "unsupported":
                o["t"] = _embed_xnode(tape, t)
                o["service"] = tape.choice(SERVICES, "unsupported.service")
                o["measure"] = tape.draw(calls.SIZE_MEASURES, "unsupported.measure")
            elif kind == "undefined_symbol":
                o["name"] = tape.choice(["nope", "undefined!", "k9"], "undef.name")
                o["via"] = tape.choice(["get_symbol", "smtlib", "hr"], "undef.via")
            elif kind in ("bad_smtlib", "stream_eio", "unsupported_command", "parse_declares"):
                txt = script_text(tape, t, symbols)
                if kind == "bad_smtlib":
                    o["text"] = corrupt(tape, txt)
                elif kind == "stream_eio":
                    o["text"] = txt
                    o["limit"] = tape.rint(0, max(1, len(txt) - 2), "eio.at")
                elif kind == "unsupported_command":
                    cmd = tape.choice(["(get-proof)", "(frobnicate 1 2)", "(get-unsat-assumptions)", "(declare-datatypes () ())",
                                       "(get-info :all-statistics)"], "unsup.cmd")
                    lines = txt.split("\n")
                    pos = tape.rint(0, len(lines) - 1, "unsup.pos")
                    o["text"] = "\n".join(lines[:pos] + [cmd] + lines[pos:])
                    o["also_serialize"] = tape.chance(1, 2, "unsup.serialize")
                else:
                    if tape.chance(1, 2, "parse_declares.malformed"):
                        # the declaration itself is malformed (or cut short): nothing of it may survive
                        o["text"] = tape.choice(MALFORMED_DECLS, "parse_declares.text")
                        o["probe"] = "zz_m"
                        o["malformed_decl"] = True
                    else:
                        o["text"] = "(declare-fun zz_new () Int)\n(declare-fun zz_new2 () Bool)\n(assert (> zz_new 0))\n(assert (zz_new2 3))\n"
                        o["probe"] = tape.choice(["zz_new", "zz_new2"], "parse_declares.probe")
            elif kind == "bad_hr":
                o["text"] = tape.choice(["(a & ", "a & & b", "x + * 3", "(a | b))", "3 <", "a ? b", "!(", "a @ b"], "bad_hr")
            elif kind == "redefine_symbol":
                n = tape.choice(sorted(symbols), "redef.name")
                s = symbols[n]
                o["name"] = n
                o["sort"] = bp.INT if bp.sort_key(s) != bp.INT else bp.BOOL
            elif kind in ("solver_convert", "solver_unknown"):
                o["q"] = tape.choice(["is_sat", "is_valid", "is_unsat"] + (["add_assertion"] if kind == "solver_convert" else []), "solver.q")
                o["f"] = bp.gen_term(tape, bp.BOOL, 2, sctx)
            elif kind == "bad_interpretation":
                o["fun"] = tape.choice(["f", "g", "P"], "badinterp.fun")
                o["nformals"] = tape.choice([0, 3], "badinterp.n")
            elif kind == "sl_error":
                o["cmd"] = tape.choice(["declare-fun", "assert", "push", "check-sat", "pop", "get-value"], "sl_error.cmd")
                o["via"] = tape.choice(["direct", "is_sat", "is_valid"], "sl_error.via")
                o["f"] = bp.gen_term(tape, bp.BOOL, 2, sctx)
                o["newsym"] = "nz%d" % tape.draw(3, "sl_error.sym")
            elif kind == "bad_size_measure":
                o["measure"] = tape.choice([6, 9, -1, 99], "badmeasure")
            elif kind == "nonincr_is_sat":
                o["f"] = bp.gen_term(tape, bp.BOOL, 2, sctx)
                o["how"] = tape.choice(["nonbool", "convert"], "nonincr.how")
            elif kind == "readd_solver":
                o["name"] = "gen%d" % tape.draw(2, "readd.name")
            elif kind == "printer_unsupported":
                o["t"] = _embed_xnode(tape, t)
                o["printer"] = tape.choice(PRINTERS, "badprint.kind")
            elif kind == "bad_cmdgen":
                # a command whose BODY fails after names were bound for it (formal parameter, let
                # variable, bound variable), given to a parser that is used command by command
                o["which"] = tape.choice(sorted(BAD_CMDS), "badcmd.which")
            elif kind == "bad_assignment_list":
                # a malformed get-value / get-model answer given to the command-by-command parser
                o["text"] = tape.choice(BAD_ASSIGNMENTS, "badassign.text")
            elif kind == "script_evaluate":
                o["f"] = bp.gen_term(tape, bp.BOOL, 2, sctx)
                o["prio"] = tape.choice(["single-obj", "lex", "box"], "seval.prio")
            ops.append(o)
            if o["kind"] in ("illtyped_construct", "illtyped_subst", "unsupported", "redefine_symbol",
                             "undefined_symbol", "bad_hr", "bad_size_measure") and tape.chance(2, 3, "retry?"):
                pending_retry.append(dict(o, op="both_fault"))
            if o["kind"] == "unsupported" and o.get("service") in ("simplify", "free_vars", "atoms", "theory", "types", "size",
                                                                   "serialize", "to_smtlib", "nnf", "cnf", "aig", "prenex",
                                                                   "is_qf", "logic"):
                # the same service is used again (both twins), on one or two pool formulas
                for _ in range(tape.rint(1, 2, "again.n")):
                    pending_retry.append({"op": "call", "call": o["service"], "i": tape.draw(len(pool), "again.formula"),
                                          "daggify": True, "measure": o.get("measure", 0) % calls.SIZE_MEASURES})
            if o["kind"] == "unsupported" and o.get("service") in calls.DWF_SERVICES:
                # later the service is taught about the node type (both twins), then asked again
                pending_retry.insert(0, dict(o, op="both_fault"))
                pending_retry.insert(0, {"op": "call", "call": "register_dwf", "i": 0, "service": o["service"]})
            if o["kind"] == "printer_unsupported":
                # the same printer object prints the next formula
                pending_retry.insert(0, {"op": "print_long", "i": tape.draw(len(pool), "print.formula"), "printer": o["printer"]})
            if o["kind"] == "bad_cmdgen":
                # later the same name is used by a command that does not bind it
                pending_retry.insert(0, {"op": "cmdgen", "text": "(assert (= %s 3))" % BAD_CMDS[o["which"]][1]})
            if o["kind"] == "bad_assignment_list":
                # later a name the environment knows but this parser was never told about
                pending_retry.insert(0, {"op": "cmdgen", "text": tape.choice(["(assert (= y 1))", "(assert (> (f 1) 0))", "(assert q)"],
                                                                              "badassign.then")})
            if o["kind"] == "sl_error" and o["cmd"] == "pop":
                # what a query left behind (had its level not been popped) would contradict this one
                pending_retry.insert(0, {"op": "sl", "sop": "is_sat", "f": ["not", o["f"]]})
            if o["kind"] == "undefined_symbol" and o.get("via") == "hr":
                # later the name gets declared (on both twins) and is parsed again by the same parser
                nm = o["name"].replace("!", "_")
                pending_retry.append({"op": "hr", "name": nm, "text": "p & %s" % nm})
            continue
        if pending_retry and tape.chance(1, 3, "retry.now"):
            ops.append(pending_retry.pop(0))
            continue
        k = tape.weighted([(8, "call"), (2, "parse"), (3, "solver"), (1, "script"), (3, "sl"), (2, "hr"), (2, "print_long")], "op.kind")
        if k == "print_long":
            ops.append({"op": "print_long", "i": tape.draw(len(pool), "print.formula"),
                        "printer": tape.choice(PRINTERS, "print.kind")})
        elif k == "hr":
            nm = tape.choice(["nope", "undefined_", "k9", "p", "q"], "hr.name")
            ops.append({"op": "hr", "name": nm, "text": tape.choice(["p & %s", "(%s | q) -> p", "!%s"], "hr.text") % nm})
            continue
        if k == "call":
            # (declaring fresh-looking names by hand is left to C14: a failed parse legitimately
            # leaves the fresh parameter names it drew, which only such a declaration could observe)
            spec = calls.gen_call(tape, len(pool), lambda i: pool[i], symbols, richgen, ctx,
                                  exclude=("declare_freshlike", "rewriter_long", "build_noncurrent"))
            spec["op"] = "call"
            ops.append(spec)
        elif k == "parse":
            i = tape.draw(len(pool), "parse.formula")
            txt = script_text(tape, pool[i], symbols)
            if tape.chance(1, 4, "parse.use_undefined"):
                # uses names that only an earlier (possibly failed) script defined: must be
                # rejected by both twins
                txt = txt.replace("(check-sat)", "(assert (dfn 1 false))\n(assert (let ((qq lv)) qq))\n(check-sat)") \
                    if tape.chance(1, 2, "parse.which") else "(assert (dfn 2 true))\n" + txt.replace(
                        "(define-fun dfn ((pa Int) (pb Bool)) Bool (or pb (> pa 0)))\n", "")
            ops.append({"op": "parse", "text": txt})
        elif k == "script":
            ops.append({"op": "script", "what": tape.choice(["add_assert", "add_push", "add_pop", "last"], "script.what"),
                        "i": tape.draw(len(pool), "script.formula")})
        elif k == "sl":
            sk = tape.weighted([(4, "assert"), (2, "push"), (2, "pop"), (3, "solve"), (2, "is_sat"), (2, "get_model")], "slop")
            o = {"op": "sl", "sop": sk}
            if sk in ("assert", "is_sat"):
                o["f"] = bp.gen_term(tape, bp.BOOL, 2, sctx)
                if tape.chance(1, 3, "sl.newsym"):
                    o["f"] = ["and", o["f"], ["sym", "nz%d" % tape.draw(3, "sl.sym"), bp.BOOL]]
            if sk in ("push", "pop"):
                o["n"] = tape.rint(1, 2, "levels")
            ops.append(o)
        else:
            sk = tape.weighted([(4, "assert"), (2, "push"), (2, "pop"), (2, "solve"), (2, "is_sat"), (2, "read")], "sop")
            o = {"op": "solver", "sop": sk}
            if sk in ("assert", "is_sat"):
                o["f"] = bp.gen_term(tape, bp.BOOL, 2, sctx)
            if sk in ("push", "pop"):
                o["n"] = tape.rint(1, 2, "levels")
            ops.append(o)
    ops += pending_retry
    return {"symbols": symbols, "pool": pool, "ops": ops}


def shrink_plan(plan):
    for i, t in enumerate(plan["pool"]):
        for c in bp.shrink_candidates(t)[:10]:
            p = dict(plan)
            p["pool"] = plan["pool"][:i] + [c] + plan["pool"][i + 1:]
            yield p


def describe(plan):
    out = ["pool[%d] = %s" % (i, bp.pretty(t)) for i, t in enumerate(plan["pool"])]
    for o in plan["ops"]:
        if o["op"] == "call":
            extra = {k: v for k, v in o.items() if k not in ("call", "i", "op", "map")}
            m = ""
            if "map" in o:
                m = " {" + ", ".join("%s -> %s" % (bp.pretty(k), bp.pretty(v)) for k, v in o["map"]) + "}"
            out.append("A,B: %s(pool[%d])%s %s" % (o["call"], o["i"], m, extra if extra else ""))
        elif o["op"] == "both_fault":
            out.append("A,B (same failing call again): %s" % o["kind"])
        elif o["op"] == "fault":
            d = {k: (bp.pretty(v) if isinstance(v, list) and v and isinstance(v[0], str) and k in ("a", "b", "key", "val", "t", "f") else v)
                 for k, v in o.items() if k not in ("op", "kind")}
            out.append("A only (must fail): %s %s" % (o["kind"], d))
        elif o["op"] == "cmdgen":
            out.append("A,B: list(cmd_parser.get_command_generator(%r))" % o["text"])
        elif o["op"] == "print_long":
            out.append("A,B: long-lived %s printer prints pool[%d]" % (o["printer"], o["i"] % len(plan["pool"])))
        elif o["op"] == "hr":
            out.append("A,B: declare %s; hr_parser.parse(%r)" % (o["name"], o["text"]))
        elif o["op"] == "parse":
            out.append("A,B: parser.get_script(%r)" % o["text"][:100])
        elif o["op"] in ("solver", "sl"):
            out.append("A,B: %s.%s %s" % ("solver" if o["op"] == "solver" else "smtlib_solver", o["sop"],
                                          bp.pretty(o["f"]) if "f" in o else o.get("n", "")))
        else:
            out.append("A,B: script.%s pool[%d]" % (o["what"], o["i"]))
    return out


# ------------------------------------------------------------------ execution

class _Side(object):
    """one of the twins: environment + its long-lived objects"""

    def __init__(self, name, symbols, tape):
        from pysmt.environment import Environment
        from pysmt.type_checker import SimpleTypeChecker
        from pysmt.smtlib.parser import SmtLibParser
        from pysmt.smtlib.script import SmtLibScript
        from pysmt.logics import QF_BV
        from dsim.brute import BruteSolver, Table
        import re
        self.name = name
        self.env = Environment()
        self.env.add_dynamic_walker_function(bp.xnode_type(), SimpleTypeChecker, SimpleTypeChecker.walk_bool_to_bool)
        mgr = self.env.formula_manager
        for n, srt in symbols.items():
            if re.match(r"^(FV|x)[0-9]+$", n):
                mgr.Symbol(n, bp.to_pysmt_type(srt, self.env))
        doms = {}
        for n, s in symbols.items():
            if s == bp.BOOL or (bp.is_bv(s) and s[1] <= 3):
                mgr.Symbol(n, bp.to_pysmt_type(s, self.env))
                doms[n] = bp.domain(s)
        while len(doms) > 6:
            doms.pop(sorted(doms)[-1])
        self.parser = SmtLibParser(environment=self.env)
        from pysmt.parsing import HRParser
        self.hr = HRParser(self.env)          # long-lived human-readable parser
        self.script = SmtLibScript()
        self.solver = BruteSolver(self.env, QF_BV, table=Table(doms), tape=tape, policy="first")
        self.depth = 0
        self.sdepth = 0
        # a real SmtLibSolver over simulated pipes to the reference solver (created lazily)
        self.sl = None
        self.slproc = None
        self.sl_depth = 0
        self.sl_live = [[]]      # blueprints per level (user-visible history)
        self.sl_sat = False

    def smtlib(self, world):
        if self.sl is None:
            from pysmt.logics import QF_BV
            name = "ref_" + self.name
            self.env.factory.add_generic_solver(name, ["ref", "twin"], [QF_BV])
            self.sl = self.env.factory.Solver(name=name, logic=QF_BV)
            self.slproc = world.procs[-1]
        return self.sl


def _execute(plan, tape):
    import pysmt.environment as penv
    from pysmt.exceptions import PysmtException
    import pysmt.smtlib.commands as smtcmd
    from pysmt.smtlib.script import SmtLibCommand
    symbols = plan["symbols"]
    user = set(symbols) | {"k%s%d" % (a, b) for a in "bir" for b in range(3)} | {"dfn", "pa", "pb", "lv", "zz_new", "zz_new2"}
    pool = plan["pool"]
    from dsim.kernel import Kernel, SimDeadlock
    from dsim.proc import World, Seams
    penv.reset_env()
    kernel = Kernel(tape, max_steps=200000, max_time=1e7)
    world = World(kernel, tape)
    world.profiles["twin"] = {"model_policy": "first", "short_reads": True}
    A = _Side("A", symbols, tape)
    B = _Side("B", symbols, tape)
    probes = {}
    faults = {}
    trace = []
    state = {"nontrivial": False, "failed_subs": [], "obj_failed": set()}

    def probe(n):
        probes[n] = probes.get(n, 0) + 1

    def on(side, fn):
        """run fn with side.env as the global environment; -> ("ok", raw) | ("exc", class name)"""
        penv.push_env(side.env)
        try:
            return ("ok", fn())
        except Exception as ex:
            return ("exc", type(ex).__name__, _safe_str(ex)[:160])
        finally:
            penv.pop_env()

    def canon(side, raw, term=None):
        return calls.canon_value(side.env, raw, user, bp.symbols_of(term) if term is not None else {})

    def same(label, ra, rb, term=None, what=""):
        """compare the twin outcomes of one call"""
        if ra[0] == "exc" and rb[0] == "ok" and ra[1] == "PysmtTypeError" and "parser" in state["obj_failed"] \
                and len(ra) > 2 and ra[2].startswith("Trying to redefine symbol") \
                and _declared_by_wellformed_command(ra[2], state.get("failed_texts", [])):
            # F14 seen through another call: a (corrupted) script declared the symbol with
            # another type before it failed to parse, and the declaration survived
            raise Violation("C15:failed-parse:declared-symbol-survives",
                            "%s %s: A gave %s after a script failed to parse; twin B gave %s" %
                            (label, what, _short(ra), _short(rb)))
        if ra[0] != rb[0] or (ra[0] == "exc" and ra[1] != rb[1]):
            raise Violation("C15:%s:differs-after-failure" % label,
                            "%s %s: A (after failing calls %s) gave %s, twin B gave %s" %
                            (label, what, [f for f in faults], _short(ra), _short(rb)))
        if ra[0] == "ok":
            penv.push_env(A.env)
            try:
                ca = canon(A, ra[1], term)
            finally:
                penv.pop_env()
            penv.push_env(B.env)
            try:
                cb = canon(B, rb[1], term)
            finally:
                penv.pop_env()
            if ca != cb:
                raise Violation("C15:%s:differs-after-failure" % label,
                                "%s %s: A (after failing calls %s) gave %s, twin B gave %s" %
                                (label, what, [f for f in faults], _short(ra), _short(rb)))
            return ca
        return ra[1]

    def nonleaf(t):
        return {json.dumps(x) for x in richgen.subterms(t) if x[0] not in bp.LEAVES}

    def sl_do(side, o):
        """one operation on the side's SmtLibSolver; returns a comparable observation"""
        s_ = side.smtlib(world)
        k = o["sop"]
        if k == "assert":
            s_.add_assertion(bp.build(o["f"], side.env))
            side.sl_live[-1].append(o["f"])
            side.sl_sat = False
            return ["ok"]
        if k == "push":
            s_.push(o["n"])
            side.sl_live += [[] for _ in range(o["n"])]
            side.sl_sat = False
            return ["ok"]
        if k == "pop":
            n = min(o["n"], len(side.sl_live) - 1)
            if n:
                s_.pop(n)
                del side.sl_live[-n:]
                side.sl_sat = False
            return ["ok"]
        if k == "solve":
            r = s_.solve()
            side.sl_sat = bool(r)
            return ["verdict", r]
        if k == "is_sat":
            r = s_.is_sat(bp.build(o["f"], side.env))
            side.sl_sat = False
            return ["verdict", r]
        if k == "get_model":
            if not side.sl_sat:
                return ["skipped"]
            m = s_.get_model()
            live = [f for lv in side.sl_live for f in lv]
            syms = {}
            for f in live:
                bp.symbols_of(f, syms)
            a = {n: m.get_value(side.env.formula_manager.get_symbol(n)).constant_value() for n in syms}
            return ["model-satisfies", all(bp.evaluate(f, a) for f in live)]
        return ["?"]

    def sl_check_stream(side, where):
        if side.slproc is not None and side.slproc.solver.illegal:
            no, why = side.slproc.solver.illegal[0]
            raise Violation("C15:smtlib:illegal-stream-after-failure",
                            "%s: twin %s sent an illegal command #%d after failing calls %s: %s" %
                            (where, side.name, no, [f for f in faults], why))

    def run():
        for step, o in enumerate(plan["ops"]):
            kind = o["op"]
            if kind == "sl":
                ra, rb = on(A, lambda: sl_do(A, o)), on(B, lambda: sl_do(B, o))
                sl_check_stream(B, "smtlib_solver.%s" % o["sop"])
                sl_check_stream(A, "smtlib_solver.%s" % o["sop"])
                same("smtlib_solver." + o["sop"], ra, rb, None, bp.pretty(o["f"]) if "f" in o else "")
                if "sl" in state["obj_failed"]:
                    state["nontrivial"] = True
                    probe("smtlib_solver_used_after_failed_call")
                trace.append(("sl", o["sop"], ra[0]))
                continue
            if kind == "call":
                i = o["i"] % len(pool)
                term = pool[i]
                spec = o

                def do(side):
                    f = bp.build(term, side.env)
                    sp = dict(spec)             # never let run-time objects leak into the plan
                    kk = sp["call"]
                    if kk == "parse_hr":
                        return side.hr.parse(f.serialize())
                    if kk == "substitute_shared":
                        sp["_dict"] = dict((bp.build(kt, side.env), bp.build(vt, side.env)) for kt, vt in sp.get("update", []))
                    elif kk == "parse_long":
                        sp["_parser"] = side.parser
                    elif kk == "script_serialize":
                        sp["_others"] = [bp.build(pool[j % len(pool)], side.env) for j in sp.get("others", [])]
                    elif kk == "foreign":
                        sp["_foreign"] = f
                    elif kk == "model_value_shared":
                        sp["_model"] = calls.partial_model(side.env, symbols)
                    return calls.perform(side.env, sp, f, term, user)
                ra, rb = on(A, lambda: do(A)), on(B, lambda: do(B))
                c = same(o["call"], ra, rb, term, "pool[%d]=%s" % (i, bp.pretty(term)[:120]))
                if state["failed_subs"] and any(nonleaf(term) & s for s in state["failed_subs"]):
                    state["nontrivial"] = True
                    probe("probe_shares_subdag_with_failed_call")
                trace.append(("call", o["call"], i, str(c)[:40]))
            elif kind == "parse":
                def do(side):
                    sc = side.parser.get_script(StringIO(o["text"]))
                    return [sc.get_last_formula(mgr=side.env.formula_manager), len(sc.commands)]
                ra, rb = on(A, lambda: do(A)), on(B, lambda: do(B))
                same("parse", ra, rb, None, repr(o["text"][:80]))
                if "parser" in state["obj_failed"]:
                    state["nontrivial"] = True
                    probe("parser_reused_after_failed_parse")
                trace.append(("parse", ra[0]))
            elif kind == "cmdgen":
                ra, rb = [on(s_, lambda s_=s_: [[c.name, [a for a in c.args]] for c in _cmdparser(s_).get_command_generator(StringIO(o["text"]))])
                          for s_ in (A, B)]
                same("parser.get_command_generator", ra, rb, None, repr(o["text"]))
                state["nontrivial"] = True
                trace.append(("cmdgen", ra[0]))
            elif kind == "print_long":
                term = pool[o["i"] % len(pool)]
                ra, rb = [on(s_, lambda s_=s_: _print_long(s_, o["printer"], bp.build(term, s_.env))) for s_ in (A, B)]
                same("printer." + o["printer"], ra, rb, term, "a long-lived printer object")
                if "printer" in state["obj_failed"]:
                    state["nontrivial"] = True
                    probe("printer_used_after_failed_print")
                trace.append(("print_long", o["printer"], ra[0]))
            elif kind == "hr":
                def do(side):
                    # the name exists now (it may have been undefined when an earlier parse failed)
                    for nm_ in (o["name"], "p", "q"):
                        side.env.formula_manager.Symbol(nm_, bp.to_pysmt_type(bp.BOOL, side.env))
                    return side.hr.parse(o["text"])
                ra, rb = on(A, lambda: do(A)), on(B, lambda: do(B))
                same("hr_parse", ra, rb, None, repr(o["text"]))
                state["nontrivial"] = True
                trace.append(("hr", ra[0]))
            elif kind == "script":
                i = o["i"] % len(pool)

                def do(side):
                    if o["what"] == "add_assert":
                        side.script.add(smtcmd.ASSERT, [bp.build(pool[i], side.env)])
                        return len(side.script)
                    if o["what"] == "add_push":
                        side.script.add(smtcmd.PUSH, [1])
                        side.depth += 1
                        return len(side.script)
                    if o["what"] == "add_pop":
                        if side.depth > 0:
                            side.script.add(smtcmd.POP, [1])
                            side.depth -= 1
                        return len(side.script)
                    return side.script.get_last_formula(mgr=side.env.formula_manager)
                ra, rb = on(A, lambda: do(A)), on(B, lambda: do(B))
                same("script", ra, rb, None, o["what"])
                if "script" in state["obj_failed"]:
                    state["nontrivial"] = True
                trace.append(("script", o["what"]))
            elif kind == "solver":
                def do(side):
                    s = side.solver
                    k = o["sop"]
                    if k == "assert":
                        s.add_assertion(bp.build(o["f"], side.env))
                    elif k == "push":
                        s.push(o["n"])
                        side.sdepth += o["n"]
                    elif k == "pop":
                        # legality is judged on the user-visible history (identical for both twins)
                        n = min(o["n"], side.sdepth)
                        if n:
                            side.sdepth -= n
                            s.pop(n)
                    elif k == "solve":
                        return ["verdict", s.solve()]
                    elif k == "is_sat":
                        return ["verdict", s.is_sat(bp.build(o["f"], side.env))]
                    st = ["state", list(s.assertions), s.b_depth(), list(s.b_live())]
                    if not state.get("status_tainted"):
                        # last_command / last_result decide whether get_model / get_unsat_core are
                        # allowed.  A failing is_sat()/is_valid() legitimately pushed, solved and
                        # popped before it failed, so they are compared only while every failure
                        # so far was a refused add_assertion (which must change neither).
                        st += [str(s.last_command), str(s.last_result)]
                    return st
                ra, rb = on(A, lambda: do(A)), on(B, lambda: do(B))
                same("solver." + o["sop"], ra, rb, None, bp.pretty(o["f"]) if "f" in o else "")
                if o["sop"] in ("solve", "is_sat") and ra[0] == "ok":
                    state["status_tainted"] = False
                if "solver" in state["obj_failed"]:
                    state["nontrivial"] = True
                    probe("solver_used_after_failed_query")
                trace.append(("solver", o["sop"], ra[0]))
            elif kind == "both_fault":
                i = o["i"] % len(pool)
                term = pool[i]
                fa, _ = _fault_fn(o, term, symbols, user, A, tape)
                fb, _ = _fault_fn(o, term, symbols, user, B, tape)
                ra, rb = on(A, fa), on(B, fb)
                same("retry." + o["kind"], ra, rb, None, "the failing call made again on both twins")
                probe("retry_" + o["kind"])
                state["nontrivial"] = True
                trace.append(("both_fault", o["kind"], ra[0]))
            elif kind == "fault":
                fk = o["kind"]
                i = o["i"] % len(pool)
                term = pool[i]
                # the *valid* parts of the composite operation (building the argument terms,
                # the symbol with its original type) are ordinary successful calls: both twins
                # make them; only the failing step itself is A's alone
                for side in (A, B):
                    on(side, lambda side=side: _prepare_fault(o, term, symbols, side))
                if fk == "sl_error":
                    # (created with the side's environment as the global one: pySMT's solver
                    # objects rely on the global environment for parsing and simplification)
                    on(A, lambda: A.smtlib(world))
                    on(B, lambda: B.smtlib(world))
                    # valid first half of the composite operation, made by both twins: a one-shot query
                    # (leaves a level to be popped by the next call) / a solve (so that values can be asked)
                    pre = {"pop": {"op": "sl", "sop": "is_sat", "f": o["f"]},
                           "get-value": {"op": "sl", "sop": "solve"}}.get(o["cmd"])
                    if pre is not None and o.get("via", "direct") == "direct":
                        ra, rb = on(A, lambda: sl_do(A, pre)), on(B, lambda: sl_do(B, pre))
                        same("smtlib_solver." + pre["sop"], ra, rb, None, "first half of a composite operation")
                fn, after = _fault_fn(o, term, symbols, user, A, tape)
                r = on(A, fn)
                if fk == "sl_error":
                    A.slproc.solver.profile.pop("error_at_name", None)
                    # the failing call may have been executed in part by the peer (a declaration
                    # accepted before the rejected command): under the strict reference solver that
                    # leaves sat mode, so neither twin is asked for a model until its next solve()
                    A.sl_sat = False
                    B.sl_sat = False
                if r[0] == "exc":
                    faults[fk] = faults.get(fk, 0) + 1
                    probe("raised_" + r[1])
                    state["failed_subs"].append(nonleaf(o.get("t", term)))
                    if fk in ("bad_smtlib", "stream_eio", "unsupported_command", "parse_declares") or \
                            (fk == "undefined_symbol" and o.get("via") == "smtlib"):
                        state["obj_failed"].add("parser")
                        state.setdefault("failed_texts", []).append(o.get("text", "")[:o["limit"]] if "limit" in o else o.get("text", ""))
                    if fk in ("solver_convert", "solver_unknown"):
                        state["obj_failed"].add("solver")
                        if o.get("q") != "add_assertion":
                            state["status_tainted"] = True
                        else:
                            probe("add_assertion_refused")
                    if fk == "sl_error":
                        state["obj_failed"].add("sl")
                    if fk == "script_strict":
                        state["obj_failed"].add("script")
                    if fk == "nonincr_is_sat":
                        # the refused query must not have used the object up
                        pa, pb = [on(s_, lambda s_=s_: ["verdict", s_.ni.is_sat(bp.build(o["f"], s_.env))]) for s_ in (A, B)]
                        same("nonincremental.is_sat", pa, pb, None, "the valid query after the refused one")
                    if fk == "readd_solver":
                        def info(s_):
                            fa = s_.env.factory
                            args, logics = fa.get_generic_solver_info(o["name"])
                            return ["generic", list(args), [str(l) for l in logics], fa.is_generic_solver(o["name"])]
                        pa, pb = on(A, lambda: info(A)), on(B, lambda: info(B))
                        same("factory.get_generic_solver_info", pa, pb, None, o["name"])
                    if fk == "bad_preference_list":
                        def prefs(s_):
                            fa = s_.env.factory
                            return ["preferences", [n for n in fa.preferences["Solver"] if not n.startswith("ref")],
                                    sum(1 for n in fa.preferences["Solver"] if n.startswith("ref"))]
                        pa, pb = on(A, lambda: prefs(A)), on(B, lambda: prefs(B))
                        same("factory.preferences", pa, pb, None, "after a refused preference list")
                    if fk == "script_evaluate":
                        def ev(s_):
                            log = s_.escript.evaluate(_script_solver(s_, tape, fail=False))
                            return [[name, (r if isinstance(r, (bool, list, tuple)) or r is None else type(r).__name__)]
                                    for name, r in log if name in ("check-sat", "get-objectives")]
                        pa, pb = on(A, lambda: ev(A)), on(B, lambda: ev(B))
                        same("script.evaluate", pa, pb, None, "the script evaluated on a new solver after an aborted evaluation")
                    if fk == "printer_unsupported":
                        state["obj_failed"].add("printer")
                    if fk == "solver_pop_too_many":
                        state["obj_failed"].add("solver")
                        probe("pop_beyond_depth_refused")
                    if fk == "solver_reset_refused":
                        state["obj_failed"].add("solver")
                        probe("reset_refused_by_backend")
                    if fk == "model_incomplete":
                        pa, pb = [on(s_, lambda s_=s_: s_.pmodel.get_value(bp.build(term, s_.env))) for s_ in (A, B)]
                        same("model.get_value", pa, pb, term, "completed value after an incomplete-model refusal")
                    if fk == "parse_declares":
                        # known borderline: the symbol declared by the failed script survives
                        name = o.get("probe", "zz_new")
                        want_other = (lambda side: side.env.formula_manager.Symbol(
                            name, bp.to_pysmt_type(bp.REAL, side.env)))
                        pa, pb = on(A, lambda: want_other(A)), on(B, lambda: want_other(B))
                        if pa[0] != pb[0] and o.get("malformed_decl"):
                            raise Violation("C15:failed-parse:malformed-declaration-took-effect",
                                            "after the malformed declaration %r was refused, Symbol(%r, REAL) %s in A but %s in the twin" %
                                            (o["text"], name, _short(pa), _short(pb)))
                        if pa[0] != pb[0]:
                            raise Violation("C15:failed-parse:declared-symbol-survives",
                                            "after a script declaring %s failed to parse, Symbol(%r, REAL) %s in A but %s in the twin" %
                                            (name, name, _short(pa), _short(pb)))
                else:
                    # not a fault after all: give B the same call so the twins stay equal
                    probe("not_a_fault_" + fk)
                    fnB, _ = _fault_fn(o, term, symbols, user, B, tape)
                    on(B, fnB)
                    if fk == "sl_error":
                        B.slproc.solver.profile.pop("error_at_name", None)
                trace.append(("fault", fk, r[0], r[1] if r[0] == "exc" else ""))

    with Seams(world):
        try:
            kernel.run_main(run)
        except SimDeadlock as d:
            raise Violation("C15:smtlib:blocks-after-failure",
                            "a call on the text-interface solver blocked (%s %s) after failing calls %s" %
                            (d.reason, d.detail[:120], [f for f in faults]))
    return {"digest": digest_of(trace), "nontrivial": state["nontrivial"] and bool(faults), "probes": probes,
            "faults": faults, "sim_time": 0.0, "steps": len(plan["ops"]),
            "sample": {"ops": describe(plan)[len(pool):][:40], "pool": describe(plan)[:len(pool)]}}


def _declared_by_wellformed_command(msg, texts):
    """F14 is: a symbol declared by a COMPLETE, well-formed declaration of a script whose parsing
    failed later.  A symbol that was left behind by the malformed command itself is something else."""
    import re
    from dsim.sexpr import Reader, SexprError, Sym
    m = re.search(r"redefine symbol '([^']*)'", msg)
    if not m:
        return True
    name = m.group(1)
    for text in texts:
        r = Reader()
        r.feed(text + "\n")
        while True:
            try:
                nx = r.next()
            except SexprError:
                break
            if nx is None:
                break
            sx = nx[0]
            if isinstance(sx, list) and len(sx) >= 3 and isinstance(sx[0], Sym) and isinstance(sx[1], Sym) and sx[1].name == name:
                if sx[0].name == "declare-fun" and len(sx) == 4 and isinstance(sx[2], list):
                    return True
                if sx[0].name == "declare-const" and len(sx) == 3:
                    return True
                if sx[0].name == "define-fun" and len(sx) == 5:
                    return True
    return False


PRINTERS = ["smt_dag", "smt_tree", "hr"]
BAD_CMDS = {"define-fun": ("(define-fun cf ((cv Int)) Int (+ cv p))", "cv"),
            "let": ("(assert (let ((lw (+ x 1))) (and lw p)))", "lw"),
            "forall": ("(assert (forall ((qv Int)) (and qv p)))", "qv"),
            # a wrong number of body terms, a binder that is malformed after its name and sort (round 8)
            "let2": ("(assert (let ((lw2 (+ x 1))) p p))", "lw2"),
            "let0": ("(assert (let ((lw0 (+ x 1)))))", "lw0"),
            "forall2": ("(assert (forall ((qv2 Int)) p p))", "qv2"),
            "exists0": ("(assert (exists ((qv0 Int))))", "qv0"),
            "binder": ("(assert (forall ((qy Int) (qb Int 7)) p))", "qb"),
            "let_binder": ("(assert (let ((lq 1) (lb 2 3)) p))", "lb")}
BAD_ASSIGNMENTS = ["((x 1) oops)", "((x 1) (y", "((x 1) (y 2 3))", "((x 1) ((f 1) (+ p 1)))", "(x 1)"]


def _cmdparser(side):
    """the side's parser that is only ever used command by command (no per-script reset)"""
    if getattr(side, "cmdparser", None) is None:
        from pysmt.smtlib.parser import SmtLibParser
        side.cmdparser = SmtLibParser(environment=side.env)
        list(side.cmdparser.get_command_generator(StringIO("(declare-fun p () Bool) (declare-fun x () Int)")))
    return side.cmdparser


def _print_long(side, kind, formula):
    """print with the side's long-lived printer object of that kind; -> the text this call emitted"""
    if not hasattr(side, "printers"):
        side.printers = {}
    if kind not in side.printers:
        from pysmt.smtlib.printers import SmtDagPrinter, SmtPrinter
        from pysmt.printers import HRPrinter
        buf = StringIO()
        cls = {"smt_dag": SmtDagPrinter, "smt_tree": SmtPrinter, "hr": HRPrinter}[kind]
        side.printers[kind] = (cls(buf), buf) if kind != "hr" else (cls(buf, side.env), buf)
    pr, buf = side.printers[kind]
    start = len(buf.getvalue())
    pr.printer(formula)
    # (compared after re-parsing: the order of the stores of an array value depends on addresses)
    return ("hr-text" if kind == "hr" else "smt-text", buf.getvalue()[start:])


def _script_solver(side, tape, fail):
    from dsim.brute import script_optimizer_class
    from pysmt.logics import QF_BV
    s = script_optimizer_class()(side.env, QF_BV, table=side.solver.table, tape=tape, policy="first")
    if fail:
        s.fault_plan["unknown_at"] = {1}
    return s


def _safe_str(x):
    try:
        return str(x)
    except Exception as ex:     # e.g. an FNode containing the unprintable custom node
        return "<unprintable %s: %s>" % (type(x).__name__, type(ex).__name__)


def _short(r):
    if r[0] == "exc":
        return "exception %s (%s)" % (r[1], r[2] if len(r) > 2 else "")
    return _safe_str(r[1])[:240]


def _prepare_fault(o, term, symbols, side):
    env = side.env
    mgr = env.formula_manager
    for key in ("a", "b", "key", "val", "t", "f"):
        if key in o and isinstance(o[key], list):
            try:
                bp.build(o[key], env)
            except Exception:
                pass
    bp.build(term, env)
    if o["kind"] == "redefine_symbol" and o["name"] in symbols:
        mgr.Symbol(o["name"], bp.to_pysmt_type(symbols[o["name"]], env))
    if o["kind"] == "illtyped_construct":
        mgr.Symbol("f", bp.to_pysmt_type(["Fun", [bp.INT], bp.INT], env))
    if o["kind"] in ("solver_convert", "arith_error_subst"):
        u = mgr.Symbol("u", bp.to_pysmt_type(bp.REAL, env))
        if o["kind"] == "arith_error_subst":
            mgr.And(bp.build(term, env), mgr.LT(mgr.Pow(u, mgr.Real(-1)), mgr.Real(3)))
            mgr.Real(0)
    if o["kind"] == "bad_interpretation":
        fsorts = {"f": ["Fun", [bp.INT], bp.INT], "g": ["Fun", [bp.INT, bp.INT], bp.BOOL],
                  "P": ["Fun", [bp.INT, bp.BOOL], bp.BOOL]}
        name = o["fun"]
        fs = mgr.Symbol(name, bp.to_pysmt_type(fsorts[name], env))
        x, y = mgr.Symbol("x", bp.to_pysmt_type(bp.INT, env)), mgr.Symbol("y", bp.to_pysmt_type(bp.INT, env))
        pb = mgr.Symbol("p", bp.to_pysmt_type(bp.BOOL, env))
        app = {"f": lambda: mgr.Equals(mgr.Function(fs, [x]), y), "g": lambda: mgr.Function(fs, [x, y]),
               "P": lambda: mgr.Function(fs, [x, pb])}[name]()
        mgr.And(bp.build(term, env), app)
        for j in range(o["nformals"]):
            mgr.Symbol("fp%d" % j, bp.to_pysmt_type(bp.INT, env))
        mgr.Int(1)
    if o["kind"] == "sl_error":
        bp.build(["and", o["f"], ["sym", o["newsym"], bp.BOOL]], env)
    if o["kind"] == "nonincr_is_sat":
        # a brand-new solver object without incrementality (valid step, both twins)
        from dsim.brute import BruteSolver
        from pysmt.logics import QF_BV
        side.ni = BruteSolver(env, QF_BV, table=side.solver.table, tape=side.solver.tape, policy="first",
                              incremental=False)
    if o["kind"] == "readd_solver":
        from pysmt.logics import QF_LIA
        if o["name"] not in env.factory.all_solvers():
            env.factory.add_generic_solver(o["name"], ["/bin/false"], [QF_LIA])
    if o["kind"] == "script_evaluate":
        # one script object per twin, with objectives; it is evaluated on brand-new solvers
        from pysmt.smtlib.parser import SmtLibParser
        bvs = sorted(n for n in side.solver.table.names if bp.is_bv(symbols.get(n, bp.BOOL)))
        lines = ["(declare-fun %s () %s)" % (bp.smt_symbol(n), bp.smt_sort(symbols[n])) for n in side.solver.table.names]
        lines.append("(set-option :opt.priority %s)" % o["prio"])
        lines.append("(assert %s)" % bp.to_smtlib(o["f"]))
        for n in bvs[:2]:
            lines.append("(minimize %s)" % bp.smt_symbol(n))
        lines += ["(check-sat)", "(get-objectives)"]
        side.escript = SmtLibParser(environment=env).get_script(StringIO("\n".join(lines) + "\n"))
    if o["kind"] == "model_incomplete":
        if getattr(side, "pmodel", None) is None:
            side.pmodel = calls.partial_model(env, symbols)


def _fault_fn(o, term, symbols, user, side, tape):
    """-> (callable performing the failing call on `side`, None)"""
    from pysmt.smtlib.script import SmtLibCommand
    import pysmt.smtlib.commands as smtcmd
    env = side.env
    mgr = env.formula_manager
    fk = o["kind"]
    if fk == "illtyped_construct":
        def fn():
            a, b = bp.build(o["a"], env), bp.build(o["b"], env)
            c = o["ctor"]
            if c == "And":
                return mgr.And(a, b)
            if c == "Plus":
                return mgr.Plus(a, b)
            if c == "BVAdd":
                return mgr.BVAdd(a, b)
            if c == "Ite":
                return mgr.Ite(a, b, a)
            if c == "LE":
                return mgr.LE(a, b)
            if c == "Equals":
                return mgr.Equals(a, b)
            if c == "Select":
                return mgr.Select(a, b)
            if c == "Store":
                return mgr.Store(a, b, b)
            if c == "Not":
                return mgr.Not(a)
            if c == "BVConcat":
                return mgr.BVConcat(a, b)
            if c == "StrLength":
                return mgr.StrLength(a)
            if c == "BVULT":
                return mgr.BVULT(a, b)
            if c == "BVSLE":
                return mgr.BVSLE(a, b)
            if c == "BVComp":
                return mgr.BVComp(a, b)
            if c == "Implies":
                return mgr.Implies(a, b)
            if c == "ToReal":
                return mgr.ToReal(a)
            if c == "StrConcat":
                return mgr.StrConcat(a, b)
            return mgr.Function(mgr.Symbol("f", bp.to_pysmt_type(["Fun", [bp.INT], bp.INT], env)), [a, b])
        return fn, None
    if fk == "illtyped_subst":
        def fn():
            f = bp.build(term, env)
            m = {bp.build(o["key"], env): bp.build(o["val"], env)}
            if o.get("mss"):
                from pysmt.substituter import MSSubstituter
                return MSSubstituter(env).substitute(f, m)
            return f.substitute(m)
        return fn, None
    if fk == "unsupported":
        def fn():
            t = o["t"]
            f = bp.build(t, env)
            spec = {"call": o["service"], "measure": o.get("measure", 0), "daggify": True,
                    "map": [[x, x] for x in richgen.subterms(t) if x[0] == "sym" and not bp.is_fun(x[2])][:1]}
            return calls.perform(env, spec, f, t, user)
        return fn, None
    if fk == "undefined_symbol":
        def fn():
            via = o.get("via", "get_symbol")
            if via == "get_symbol":
                return mgr.get_symbol(o["name"])
            if via == "smtlib":
                return side.parser.get_script(StringIO("(declare-fun p () Bool)\n(assert (and p |%s|))\n" % o["name"]))
            return side.hr.parse("p & %s" % o["name"].replace("!", "_"))
        return fn, None
    if fk in ("bad_smtlib", "unsupported_command", "parse_declares"):
        def fn():
            sc = side.parser.get_script(StringIO(o["text"]))
            if o.get("also_serialize"):
                buf = StringIO()
                sc.serialize(buf)
            if fk == "unsupported_command":
                # a script that parsed: evaluating it on a solver must fail on the unsupported command
                SmtLibCommand("frobnicate", []).serialize_to_string()
            return sc
        return fn, None
    if fk == "stream_eio":
        return (lambda: side.parser.get_script(FailingStream(o["text"], o["limit"]))), None
    if fk == "bad_hr":
        return (lambda: side.hr.parse(o["text"])), None
    if fk == "redefine_symbol":
        return (lambda: mgr.Symbol(o["name"], bp.to_pysmt_type(o["sort"], env))), None
    if fk == "script_strict":
        def fn():
            side.script.add(smtcmd.PUSH, [1])
            side.script.commands.pop()
            sc = side.script
            if not sc.contains_command(smtcmd.PUSH):
                # make it fail for the other documented reason: no single check-sat
                return sc.get_strict_formula(mgr)
            return sc.get_strict_formula(mgr)
        return fn, None
    if fk == "bad_size_measure":
        return (lambda: bp.build(term, env).size(o["measure"])), None
    if fk == "nonincr_is_sat":
        def fn():
            f = bp.build(o["f"], env)
            if o["how"] == "nonbool":
                bad = mgr.Symbol("ni_b", bp.to_pysmt_type(bp.BV(2), env))
            else:
                bad = mgr.And(f, mgr.GT(mgr.Symbol("u", bp.to_pysmt_type(bp.REAL, env)), mgr.Real(0)))
            return side.ni.is_sat(bad)
        return fn, None
    if fk == "bad_preference_list":
        return (lambda: env.factory.set_solver_preference_list([])), None
    if fk == "script_evaluate":
        def fn():
            # the solver gives up at its first check: the evaluation stops after the objectives were read
            return side.escript.evaluate(_script_solver(side, tape, fail=True))
        return fn, None
    if fk == "printer_unsupported":
        return (lambda: _print_long(side, o["printer"], bp.build(o["t"], env))), None
    if fk == "bad_cmdgen":
        return (lambda: list(_cmdparser(side).get_command_generator(StringIO(BAD_CMDS[o["which"]][0])))), None
    if fk == "bad_assignment_list":
        return (lambda: _cmdparser(side).get_assignment_list(StringIO(o["text"]))), None
    if fk == "solver_pop_too_many":
        # more levels than there are: the back end refuses, nothing may have been popped
        return (lambda: side.solver.pop(side.sdepth + 1 + (1 if side.solver.pending_pop else 0))), None
    if fk == "solver_reset_refused":
        def fn():
            side.solver.fault_plan["refuse_next_reset"] = True
            try:
                return side.solver.reset_assertions()
            finally:
                side.solver.fault_plan["refuse_next_reset"] = False
        return fn, None
    if fk == "readd_solver":
        def fn():
            from pysmt.logics import QF_BV as QF_BV_
            return env.factory.add_generic_solver(o["name"], ["/bin/true", "--other"], [QF_BV_])
        return fn, None
    if fk == "model_incomplete":
        return (lambda: side.pmodel.get_value(bp.build(term, env), model_completion=False)), None
    if fk == "bad_interpretation":
        def fn():
            from pysmt.substituter import FunctionInterpretation
            fsorts = {"f": ["Fun", [bp.INT], bp.INT], "g": ["Fun", [bp.INT, bp.INT], bp.BOOL],
                      "P": ["Fun", [bp.INT, bp.BOOL], bp.BOOL]}
            name = o["fun"]
            fs = mgr.Symbol(name, bp.to_pysmt_type(fsorts[name], env))
            x, y = mgr.Symbol("x", bp.to_pysmt_type(bp.INT, env)), mgr.Symbol("y", bp.to_pysmt_type(bp.INT, env))
            pb = mgr.Symbol("p", bp.to_pysmt_type(bp.BOOL, env))
            app = {"f": lambda: mgr.Equals(mgr.Function(fs, [x]), y), "g": lambda: mgr.Function(fs, [x, y]),
                   "P": lambda: mgr.Function(fs, [x, pb])}[name]()
            formula = mgr.And(bp.build(term, env), app)
            formals = [mgr.Symbol("fp%d" % j, bp.to_pysmt_type(bp.INT, env)) for j in range(o["nformals"])]
            body = mgr.Int(1) if name == "f" else mgr.TRUE()
            interp = FunctionInterpretation(formals, body)      # wrong number of formal parameters
            return formula.substitute(interpretations={fs: interp})
        return fn, None
    if fk == "arith_error_subst":
        def fn():
            u = mgr.Symbol("u", bp.to_pysmt_type(bp.REAL, env))
            formula = mgr.And(bp.build(term, env), mgr.LT(mgr.Pow(u, mgr.Real(-1)), mgr.Real(3)))
            return formula.substitute({u: mgr.Real(0)})         # 0 ** -1 while rebuilding
        return fn, None
    if fk == "sl_error":
        def fn():
            s_ = side.sl
            ref = side.slproc.solver
            cmd = o["cmd"]
            ref.profile["error_at_name"] = [cmd, ref.counts.get(cmd, 0) + 1]
            f = bp.build(["and", o["f"], ["sym", o["newsym"], bp.BOOL]], env)
            if o.get("via", "direct") in ("is_sat", "is_valid"):
                # the rejected command is one of those a one-shot query sends (push / declare / assert / check-sat)
                return getattr(s_, o["via"])(f)
            if cmd == "push":
                return s_.push(1)
            if cmd == "check-sat":
                return s_.solve()
            if cmd == "pop":
                # refused only if an earlier one-shot query left a level to be popped by this call
                return s_.solve()
            if cmd == "get-value":
                if side.sl_sat:
                    return s_.get_value(mgr.TRUE())
                return s_.solve()
            return s_.add_assertion(f)
        return fn, None
    if fk == "solver_convert":
        def fn():
            s = side.solver
            f = bp.build(o["f"], env)
            bad = mgr.And(f, mgr.GT(mgr.Symbol("u", bp.to_pysmt_type(bp.REAL, env)), mgr.Real(0)))
            return getattr(s, o["q"])(bad)
        return fn, None
    if fk == "solver_unknown":
        def fn():
            s = side.solver
            s.fault_plan.setdefault("unknown_at", set()).add(s.b_counts["solve"] + 1)
            try:
                return getattr(s, o["q"])(bp.build(o["f"], env))
            finally:
                s.fault_plan["unknown_at"].discard(s.b_counts["solve"] + 1)
        return fn, None
    raise ValueError(fk)



def execute(plan, tape):
    """a well-formed construction or query of the history that raises inside the library is a
    violation (the harness itself never expects one there), not a harness error"""
    import sys
    import traceback
    try:
        return _execute(plan, tape)
    except Violation:
        raise
    except Exception as ex:
        tb = traceback.extract_tb(sys.exc_info()[2])
        if tb and "/pysmt/" in tb[-1].filename and "/verif/" not in tb[-1].filename:
            caller = [fr for fr in tb if "/verif/" in fr.filename]
            raise Violation("C15:valid-call-raised:%s" % type(ex).__name__,
                            "a valid call of the history raised %s: %s (at %s:%s, called from %s:%d)" %
                            (type(ex).__name__, str(ex)[:150], tb[-1].filename.split("/")[-1], tb[-1].name,
                             caller[-1].filename.split("/")[-1] if caller else "?", caller[-1].lineno if caller else 0))
        raise
