"""C14 - results do not depend on what the environment was used for before.

2-4 logical clients share one Environment.  Each owns a script of public-API
calls over a common pool of formulas (so clients share sub-DAGs and
super-formulas).  The scheduler (tape) interleaves the clients at API-call
granularity - the finest legal interleaving of a library that is neither
thread-safe nor re-entrant.  Sequential specification: every call's result
equals (modulo AC order and fresh names) the result of the same call made
alone in a brand-new Environment; repeating a call that introduces no fresh
symbol returns the identical object.
"""
import json

from dsim import bp, richgen, calls
from dsim.runner import Violation, digest_of

ID = "C14"
LEVEL = "exploration"
RULE = ("one case = 2-4 clients x scripts of 20-80 API calls in total (construction, get_type, simplify, substitute "
        "with several maps MGS/MSS, free variables, atoms, is_qf, theory, logic, types, size with each measure, HR and "
        "SMT-LIB printing, SMT-LIB/HR parsing, nnf/cnf/prenex/aig, Boolean qelim, FreshSymbol, EagerModel.get_value) over "
        "a pool of 6-12 formulas that share sub-DAGs, interleaved by the tape on one Environment; every result is "
        "compared with the same call in a fresh Environment. Non-trivial: some probed formula shares a non-leaf node "
        "with a formula touched by an earlier call of a different client, or was earlier queried with different extra "
        "arguments. Distinct: digest of the interleaved call sequence and canonical results.")
COMPONENTS = {
    "real": ["Environment and its 11 singleton services (FormulaManager, SimpleTypeChecker, Simplifier, MGSubstituter, "
             "HRSerializer, Quantifier/Theory/FreeVars/Size/Atoms/Types oracles)", "MSSubstituter", "get_logic",
             "SmtPrinter/SmtDagPrinter, SmtLibParser, HRParser", "rewritings nnf/cnf/prenex/aig", "Shannon / self-substitution "
             "quantifier eliminators", "EagerModel"],
    "stub": ["none (the 'peers' are logical clients of one environment, scheduled by the tape)"],
}
ASSUMPTIONS = [
    "only documented-valid arguments are generated",
    "comparison is modulo order of commutative arguments, array-value assignment order and names of fresh symbols "
    "(all fresh symbols of one type are identified); printed text is compared after re-parsing (SMT-LIB) or as a "
    "token multiset (HR)",
    "interleaving granularity is one public API call (the library is not re-entrant and does not claim to be)",
]
TIERS = {
    "quick": {"runs": 2400, "budget_s": 75},
    "thorough": {"runs": 80000, "budget_s": 900},
}


def _gen_pool(tape, ctx):
    n = tape.rint(6, 12, "pool.n")
    pool = []
    for i in range(n):
        if i < 3 or tape.chance(1, 3, "pool.base?"):
            pool.append(richgen.gen(tape, bp.BOOL, tape.rint(1, 3, "pool.depth"), ctx))
        else:
            a = pool[tape.draw(len(pool), "pool.a")]
            b = pool[tape.draw(len(pool), "pool.b")]
            k = tape.choice(["and", "or", "not", "ite", "iff", "implies", "wrap"], "pool.comb")
            if k == "not":
                pool.append(["not", a])
            elif k == "ite":
                pool.append(["ite", richgen.gen(tape, bp.BOOL, 1, ctx), a, b])
            elif k == "wrap":
                pool.append(["and", a, richgen.gen(tape, bp.BOOL, 2, ctx), b])
            else:
                pool.append([k, a, b])
    if tape.chance(1, 3, "pool.qbody"):
        # the body of a quantified sub-formula also occurs on its own (its bound names are then
        # ordinary free symbols) in another formula of the pool
        qs = [x for t_ in pool for x in richgen.subterms(t_) if x[0] in bp.QUANT]
        if qs:
            q = qs[tape.draw(len(qs), "qbody.which")]
            pool[tape.draw(len(pool), "qbody.where")] = [tape.choice(["and", "or"], "qbody.op"), q[2],
                                                         richgen.gen(tape, bp.BOOL, 1, ctx)]
    if tape.chance(1, 3, "pool.stores") and "A" in ctx.symbols:
        # two formulas that share an intermediate store over one constant array value and then branch
        arr_sort = ctx.symbols["A"]
        if bp.is_array(arr_sort) and arr_sort[1] == bp.INT and arr_sort[2] == bp.INT:
            def iv():
                return richgen.gen(tape, bp.INT, 1, ctx)
            a0 = ["arrayval", bp.INT, ["int", tape.rint(0, 2, "stores.default")], []]
            base = ["store", a0, ["int", 1], iv()]
            if tape.chance(1, 2, "stores.deeper"):
                base = ["store", base, ["int", 2], iv()]
            f1 = ["store", base, ["int", tape.rint(3, 4, "stores.k1")], iv()]
            f2 = ["store", base, ["int", tape.rint(5, 6, "stores.k2")], iv()]
            A = ["sym", "A", arr_sort]
            for f_ in (f1, f2):
                pool[tape.draw(len(pool), "stores.where")] = ["=", f_, A]
    if tape.chance(1, 3, "pool.xnode"):
        j = tape.draw(len(pool), "pool.xnode.which")
        pool[j] = ["and", ["xnode", pool[j], ["sym", "q", bp.BOOL]], ["sym", "p", bp.BOOL]]
    return pool


def gen_plan(tape, cfg):
    symbols = richgen.default_symbols(tape)
    ctx = richgen.RichCtx(symbols)
    pool = _gen_pool(tape, ctx)
    nclients = tape.rint(2, 4, "clients")
    nops = tape.rint(20, 80, "nops")
    ops = []
    for _ in range(nops):
        c = tape.draw(nclients, "client")
        if ops and tape.chance(1, 6, "repeat?"):
            spec = dict(ops[tape.draw(len(ops), "repeat.which")])
            spec["client"] = c
            ops.append(spec)
            continue
        spec = calls.gen_call(tape, len(pool), lambda i: pool[i], symbols, richgen, ctx)
        spec["client"] = c
        ops.append(spec)
    if tape.chance(1, 60, "bulk?"):
        # a long-lived environment: one client walks a very large formula (more sub-formulas than
        # any bounded table may hold) with one of the services, in the middle of the history
        pos = tape.rint(len(ops) // 4, max(len(ops) // 4, len(ops) * 3 // 4), "bulk.at")
        ops.insert(pos, {"call": "bulk", "i": 0, "client": tape.draw(nclients, "bulk.client"),
                         "service": tape.choice(["free_vars", "simplify", "size", "atoms", "is_qf", "types", "theory"], "bulk.service"),
                         "n": tape.choice([23000, 23000, 45000], "bulk.n"), "measure": 0})
    return {"symbols": symbols, "pool": pool, "clients": nclients, "ops": ops}


def _bulk(env, spec):
    """walk a formula of > 65536 distinct sub-formulas with one service of the aged environment"""
    import pysmt.typing as T
    mgr = env.formula_manager
    x = mgr.Symbol("bulk_x", T.INT)
    zero = mgr.Int(0)
    big = mgr.And([mgr.GT(mgr.Plus(x, mgr.Int(j)), zero) for j in range(1, spec["n"])])
    calls.perform(env, {"call": spec["service"], "measure": spec.get("measure", 0)}, big, None, ())


def shrink_plan(plan):
    # simplify pool formulas (keeping their position so indices stay valid)
    for i, t in enumerate(plan["pool"]):
        for c in bp.shrink_candidates(t)[:12]:
            p = dict(plan)
            p["pool"] = plan["pool"][:i] + [c] + plan["pool"][i + 1:]
            yield p
    for i, o in enumerate(plan["ops"]):
        if o.get("map") and len(o["map"]) > 1:
            for j in range(len(o["map"])):
                p = dict(plan)
                p["ops"] = plan["ops"][:i] + [dict(o, map=o["map"][:j] + o["map"][j + 1:])] + plan["ops"][i + 1:]
                yield p
        if o.get("client"):
            p = dict(plan)
            p["ops"] = plan["ops"][:i] + [dict(o, client=0)] + plan["ops"][i + 1:]
            yield p


def describe(plan):
    out = ["pool[%d] = %s" % (i, bp.pretty(t)) for i, t in enumerate(plan["pool"])]
    for o in plan["ops"]:
        extra = {k: v for k, v in o.items() if k not in ("call", "i", "client", "map")}
        m = ""
        if "map" in o:
            m = " {" + ", ".join("%s -> %s" % (bp.pretty(k), bp.pretty(v)) for k, v in o["map"]) + "}"
        out.append("client%d: %s(pool[%d])%s %s" % (o["client"], o["call"], o["i"], m, extra if extra else ""))
    return out


def _nonleaf_subterms(t):
    return {json.dumps(x) for x in richgen.subterms(t) if x[0] not in bp.LEAVES}


def _execute(plan, tape):
    from pysmt.environment import reset_env, Environment
    from pysmt.fnode import FNode as FNode_
    symbols = plan["symbols"]
    user = set(symbols) | {"k%s%d" % (a, b) for a in "bir" for b in range(3)}
    pool = plan["pool"]
    env = reset_env()
    _declare_all(env, symbols)
    _register_xnode(env)
    # a second, independent environment whose formulas are queried through env's oracles; it is
    # populated first, so its node ids overlap with those the aged environment hands out
    foreign_env = Environment()
    _register_xnode(foreign_env)
    foreign_built = {}
    import pysmt.environment as penv_
    penv_.push_env(foreign_env)
    try:
        for j, t_ in enumerate(pool):
            try:
                foreign_built[j] = bp.build(t_, foreign_env)
            except Exception:
                pass
    finally:
        penv_.pop_env()
    # interleave the clients' scripts: the tape picks the client that moves next
    queues = {}
    for o in plan["ops"]:
        queues.setdefault(o["client"], []).append(o)
    order = []
    live = sorted(c for c in queues)
    pos = {c: 0 for c in live}
    while live:
        c = live[tape.draw(len(live), "sched.client")]
        order.append(queues[c][pos[c]])
        pos[c] += 1
        if pos[c] >= len(queues[c]):
            live.remove(c)
    trace = []
    probes = {}
    nontrivial = False
    touched = []            # (client, set of non-leaf subterm keys, call kind+extras)
    first_result = {}       # spec json -> raw FNode result (for identity on repetition)
    subcache = {}
    state_last = {"formula": None}
    shared_dict = {}        # client -> the one dict object it keeps re-using
    shared_bp = {}          # client -> blueprint content of that dict
    parsers = {}            # client -> its long-lived SmtLibParser
    models = {}             # client -> its long-lived (partial) EagerModel
    registrations = []      # generic solvers registered with the aged environment's factory
    rewriters = {}          # (client, kind) -> its long-lived PrenexNormalizer / NNFizer
    second_env = Environment()      # an aged environment that is never the current one
    _register_xnode(second_env)
    dwf_regs = []           # dynamic walker functions registered with the aged environment
    late_decls = []         # fresh-looking names the user declared in mid-history

    def probe(n):
        probes[n] = probes.get(n, 0) + 1

    for step, spec in enumerate(order):
        i = spec["i"] % len(pool)
        term = pool[i]
        k = spec["call"]
        if k == "bulk":
            try:
                _bulk(env, spec)
                probe("bulk_walk_" + spec["service"])
            except Exception as ex:
                raise Violation("C14:bulk:raised", "walking a large formula with %s raised %s: %s" %
                                (spec["service"], type(ex).__name__, str(ex)[:120]))
            trace.append((spec["client"], "bulk", spec["service"]))
            continue
        if i not in subcache:
            subcache[i] = _nonleaf_subterms(term)
        # non-triviality
        for (c2, subs2, sig2) in touched:
            if subs2 & subcache[i]:
                if c2 != spec["client"]:
                    nontrivial = True
                elif sig2[0] == k and sig2[1] != json.dumps({a: b for a, b in spec.items() if a not in ("client",)}, sort_keys=True):
                    nontrivial = True
                    probe("same_formula_different_arguments")
        key = json.dumps({a: b for a, b in spec.items() if a not in ("client", "_dict", "_parser", "_foreign", "_others", "_first", "_first_out", "_model", "_bad_entry", "_rewriter", "_other_env")}, sort_keys=True)
        touched.append((spec["client"], subcache[i], (k, key)))
        if len(touched) > 40:
            touched.pop(0)
        # ---- aged environment
        derived_src = state_last["formula"] if spec.get("derived") else None
        spec = dict(spec)
        if k == "substitute_shared":
            c = spec["client"]
            shared_bp.setdefault(c, {})
            if c not in shared_dict:
                shared_dict[c] = {}
            for kt, vt in spec.get("update", []):
                shared_bp[c][json.dumps(kt)] = (kt, vt)
                shared_dict[c][bp.build(kt, env)] = bp.build(vt, env)     # in-place update of the client's dict
            spec["_dict"] = shared_dict[c]
            probe("shared_dict_updated_in_place")
            if spec.get("bad") and shared_bp[c]:
                kt0 = sorted(shared_bp[c].values(), key=repr)[0][0]
                if spec["bad"] == "foreign_value":
                    spec["_bad_entry"] = (bp.build(kt0, env), bp.build(kt0, foreign_env))
                else:
                    spec["_bad_entry"] = (bp.build(kt0, foreign_env), bp.build(kt0, env))
                probe("shared_dict_with_refusable_entry")
        if k == "rewriter_long":
            import pysmt.rewritings as rw_
            rk = (spec["client"], spec["which"])
            if rk not in rewriters:
                rewriters[rk] = rw_.PrenexNormalizer(env) if spec["which"] == "prenex" else rw_.NNFizer(env)
            else:
                probe("long_lived_rewriter_reused")
            spec["_rewriter"] = rewriters[rk]
        if k == "build_noncurrent":
            spec["_other_env"] = second_env
        if k == "model_value_shared":
            if spec["client"] not in models:
                models[spec["client"]] = calls.partial_model(env, symbols)
            else:
                probe("shared_model_reused")
            spec["_model"] = models[spec["client"]]
        if k == "foreign":
            if i not in foreign_built:
                continue
            spec["_foreign"] = foreign_built[i]
            probe("foreign_formula_query")
        if k == "script_serialize":
            try:
                spec["_others"] = [bp.build(pool[j % len(pool)], env) for j in spec.get("others", [])]
            except Exception:
                continue
        if k == "parse_long":
            from pysmt.smtlib.parser import SmtLibParser
            if spec["client"] not in parsers:
                parsers[spec["client"]] = SmtLibParser(environment=env)
            else:
                probe("long_lived_parser_reused")
            spec["_parser"] = parsers[spec["client"]]
        existing_before = set(env.formula_manager.symbols)
        try:
            f = bp.build(term, env) if derived_src is None else derived_src
            aged_build = None
        except Exception as ex:
            f, aged_build = None, type(ex).__name__
        aged = ("exc", "not-built", None)
        if f is not None:
            aged = calls.outcome(env, spec, f, term, user)
        # ---- sequential specification: the same call alone in a brand-new environment
        with Environment() as fresh:
            _declare_all(fresh, symbols)
            _register_xnode(fresh)
            for nm_ in late_decls:
                calls.declare_freshlike(fresh, {"name": nm_})
            try:
                if derived_src is None:
                    ff = bp.build(term, fresh)
                else:
                    # the derived formula re-created in the fresh environment (public API)
                    ff = fresh.formula_manager.normalize(derived_src)
                    probe("call_on_derived_formula")
                fresh_build = None
            except Exception as ex:
                ff, fresh_build = None, type(ex).__name__
            if ff is not None and f is not None:
                fspec = spec
                if k == "model_value_shared":
                    fspec = dict(spec)
                    fspec["_model"] = calls.partial_model(fresh, symbols)
                if k == "resimplify":
                    fspec = dict(spec)
                    fspec["_first"] = spec.get("_first_out")
                    if fspec["_first"] is None:
                        fspec = None
                if k == "script_serialize":
                    fspec = dict(spec)
                    fspec["_others"] = [bp.build(pool[j % len(pool)], fresh) for j in spec.get("others", [])]
                if k == "rewriter_long":
                    import pysmt.rewritings as rw_
                    fspec = dict(spec)
                    fspec["_rewriter"] = rw_.PrenexNormalizer(fresh) if spec["which"] == "prenex" else rw_.NNFizer(fresh)
                if k == "build_noncurrent":
                    fspec = dict(spec)
                    fspec["_other_env"] = Environment()
                    _register_xnode(fspec["_other_env"])
                if k == "parse_long":
                    from pysmt.smtlib.parser import SmtLibParser
                    fspec = dict(spec)
                    fspec["_parser"] = SmtLibParser(environment=fresh)
                if k == "substitute_shared":
                    fspec = dict(spec)
                    fspec["_dict"] = dict((bp.build(kt, fresh), bp.build(vt, fresh))
                                          for kt, vt in shared_bp[spec["client"]].values())
                    if spec.get("_bad_entry") is not None:
                        kt0 = sorted(shared_bp[spec["client"]].values(), key=repr)[0][0]
                        if spec["bad"] == "foreign_value":
                            fspec["_bad_entry"] = (bp.build(kt0, fresh), bp.build(kt0, foreign_env))
                        else:
                            fspec["_bad_entry"] = (bp.build(kt0, foreign_env), bp.build(kt0, fresh))
                if k == "factory":
                    # the registrations made so far are the only history that legitimately counts
                    for reg in registrations:
                        calls.factory_register(fresh, reg)
                for reg in dwf_regs:
                    calls.register_dwf(fresh, reg)
                if k in ("register_dwf", "declare_freshlike"):
                    fspec = None        # pure history: no sequential specification to compare with
                spec_out = calls.outcome(fresh, fspec, ff, term, user) if fspec is not None else aged
                if fspec is not None and spec_out[0] == "ok" and isinstance(spec_out[2], FNode_) and k != "foreign" \
                        and spec_out[2] not in fresh.formula_manager:
                    raise Violation("C14:%s:foreign-result" % k,
                                    "step %d: %s(pool[%d]) in a brand-new environment returned a formula of another environment's manager" %
                                    (step, k, i))
        if k == "factory" and spec.get("action") == "add" and aged[0] == "ok":
            registrations.append(dict(spec))
            probe("generic_solver_registered")
        if k == "register_dwf" and aged[0] == "ok" and aged[2] == "registered":
            dwf_regs.append(dict(spec))
            probe("dynamic_walker_function_registered")
        if k == "declare_freshlike" and aged[0] == "ok" and aged[2] == "declared":
            late_decls.append(spec["name"])
            user.add(spec["name"])
            probe("freshlike_symbol_declared_late")
        for k_ in ("_dict", "_parser", "_foreign", "_others", "_first", "_first_out", "_model", "_bad_entry", "_rewriter", "_other_env"):
            spec.pop(k_, None)
        if aged_build != fresh_build:
            raise Violation("C14:build:history-dependent",
                            "step %d: constructing pool[%d]=%s %s in the aged environment but %s in a fresh one" %
                            (step, i, bp.pretty(term)[:200],
                             "raised " + aged_build if aged_build else "succeeded",
                             "raised " + fresh_build if fresh_build else "succeeded"))
        if f is None:
            continue
        if aged[:2] != spec_out[:2]:
            raise Violation("C14:%s:history-dependent" % k,
                            "step %d client%d %s(pool[%d]=%s) %s: aged environment gave %s, fresh environment gave %s" %
                            (step, spec["client"], k, i, bp.pretty(term)[:200],
                             {a: b for a, b in spec.items() if a not in ("call", "i", "client")},
                             _show(aged), _show(spec_out)))
        if aged[0] == "ok" and isinstance(aged[2], tuple) and aged[2] and aged[2][0] == "script-roundtrip-broken":
            raise Violation("C14:script_serialize:depends-on-earlier-commands",
                            "step %d: serialising a script with one printer: %s" % (step, aged[2][1]))
        # a formula a call returns belongs to the environment the call was made in
        for out_, e_, lab_ in ((aged, env, "aged"), (spec_out, None, "brand-new")):
            if e_ is not None and out_[0] == "ok" and isinstance(out_[2], FNode_) and k != "foreign" \
                    and out_[2] not in e_.formula_manager:
                raise Violation("C14:%s:foreign-result" % k,
                                "step %d: %s(pool[%d]) in the %s environment returned a formula of another environment's manager" %
                                (step, k, i, lab_))
        for out_ in (aged, spec_out):
            if out_[0] == "ok" and isinstance(out_[2], tuple) and out_[2] and out_[2][0] == "closer-logic-wrong":
                raise Violation("C14:closer_logic:wrong", "step %d: %s" % (step, out_[2][1]))
            if k == "build_noncurrent" and out_[0] == "exc" and out_[1] == "PysmtTypeError":
                raise Violation("C14:build_noncurrent:refused",
                                "step %d: pool[%d] is well typed but building it through the manager of an environment that is not the current one raised PysmtTypeError" % (step, i))
        for out_ in (aged, spec_out):
            if out_[0] == "ok" and isinstance(out_[2], tuple) and out_[2] and out_[2][0] == "factory-preferences-foreign":
                raise Violation("C14:factory:preferences-shared",
                                "step %d: %s (%s environment)" % (step, out_[2][1], "aged" if out_ is aged else "brand-new"))
        if aged[0] == "ok" and isinstance(aged[2], tuple) and aged[2] and aged[2][0] == "fresh-collides":
            raise Violation("C14:fresh:collides", "FreshSymbol returned the existing user symbol %s" % aged[2][1])
        # ---- symbols introduced by the call did not exist before it ("fresh" means new)
        if aged[0] == "ok" and k in ("cnf", "prenex", "qelim", "nnf", "aig", "simplify", "substitute") \
                and isinstance(aged[2], FNode_):
            try:
                res_syms = {x.symbol_name() for x in aged[2].get_free_variables()}
                inp_syms = {x.symbol_name() for x in f.get_free_variables()}
            except Exception:
                res_syms, inp_syms = set(), set()
            map_syms = set()
            for kt, vt in spec.get("map", []) or []:
                map_syms |= set(bp.symbols_of(vt))
            introduced = res_syms - inp_syms - map_syms
            reused = sorted(n for n in introduced if n in existing_before)
            if reused:
                raise Violation("C14:%s:fresh-symbol-not-new" % k,
                                "step %d %s(pool[%d]): the result mentions %s, which are neither symbols of the input nor new: "
                                "they existed in the environment before the call" % (step, k, i, reused))
        # ---- repetition returns the very same object
        from pysmt.fnode import FNode
        if aged[0] == "ok" and isinstance(aged[2], FNode) and k in ("simplify", "substitute", "substitute_shared",
                                                                    "nnf", "prenex", "aig", "cnf"):
            state_last["formula"] = aged[2]
        if k in calls.IDEMPOTENT_OBJECT_CALLS and aged[0] == "ok" and isinstance(aged[2], FNode) \
                and not spec.get("derived"):
            if key in first_result:
                probe("repeated_call")
                if first_result[key] is not aged[2]:
                    raise Violation("C14:%s:repeat-not-identical" % k,
                                    "repeating %s(pool[%d]) returned a different object: %s vs %s" %
                                    (k, i, first_result[key], aged[2]))
            else:
                first_result[key] = aged[2]
        trace.append((spec["client"], k, i, aged[0], json.dumps(aged[1], sort_keys=True)[:64] if aged[0] == "ok" else aged[1]))
        if aged[0] == "exc":
            probe("natural_exception_" + aged[1])
    return {"digest": digest_of(trace), "nontrivial": nontrivial, "probes": probes, "faults": {},
            "sim_time": 0.0, "steps": len(order),
            "sample": {"calls": describe(plan)[:40]}}


def _register_xnode(env):
    from pysmt.type_checker import SimpleTypeChecker
    env.add_dynamic_walker_function(bp.xnode_type(), SimpleTypeChecker, SimpleTypeChecker.walk_bool_to_bool)


def _declare_all(env, symbols):
    """the user's symbols exist before anything else happens (in the aged and in every
    fresh environment alike): fresh-name generation is only required to avoid names
    that exist at that moment, so a user symbol created *after* a colliding fresh one
    would be a misuse, not a history dependence of the library"""
    import re
    mgr = env.formula_manager
    for n, srt in symbols.items():
        # only the names that a fresh-name template could produce need to pre-exist;
        # all other symbols are created lazily so that node-id orders differ between
        # the aged and the fresh environment (this is what exposes order-dependent code)
        if re.match(r"^(FV|x)[0-9]+$", n):
            mgr.Symbol(n, bp.to_pysmt_type(srt, env))


def _show(o):
    if o[0] == "exc":
        return "exception %s" % o[1]
    raw = o[2]
    s = str(raw)
    return s[:300]



def execute(plan, tape):
    """a well-formed construction or query of the history that raises inside the library is a
    violation (the harness itself never expects one there), not a harness error"""
    import sys
    import traceback
    try:
        return _execute(plan, tape)
    except Violation:
        raise
    except Exception as ex:
        tb = traceback.extract_tb(sys.exc_info()[2])
        if tb and "/pysmt/" in tb[-1].filename and "/verif/" not in tb[-1].filename:
            caller = [fr for fr in tb if "/verif/" in fr.filename]
            raise Violation("C14:valid-call-raised:%s" % type(ex).__name__,
                            "a valid call of the history raised %s: %s (at %s:%s, called from %s:%d)" %
                            (type(ex).__name__, str(ex)[:150], tb[-1].filename.split("/")[-1], tb[-1].name,
                             caller[-1].filename.split("/")[-1] if caller else "?", caller[-1].lineno if caller else 0))
        raise
