"""C04 - hash-consing under arbitrary construction histories.

2-4 builder clients work on one or two environments.  Operations: build a
blueprint through a tape-chosen route (manager methods, shortcuts, infix
operators, list vs varargs, every documented spelling of a constant), in a
tape-chosen order, re-build something old, interleaved across clients with
unrelated constructions, failing (ill-typed) constructions, simplify /
substitute calls that create nodes as a side effect, and normalize() between
the environments in both directions.

Reference model: a dictionary  structural key -> object  per environment,
where the key is recomputed from the returned object with the public
accessors only (so no model of constructor normalisations is needed).
"""
import json
from fractions import Fraction

from dsim import bp, richgen
from dsim.canon import Canon, tkey as canon_tkey
from dsim.runner import Violation, digest_of

ID = "C04"
LEVEL = "exploration"
RULE = ("one case = 30-120 construction steps by 2-4 interleaved clients on 1-2 environments: builds of pool formulas "
        "through tape-chosen routes (manager / shortcuts / infix / list-vs-varargs / constant spellings), re-builds, "
        "ill-typed attempts, simplify/substitute side effects and normalize() in both directions. Invariants after every "
        "step: same structure => same object; new structure => new object; accessors report what was built; a == b iff "
        "a is b with a stable hash; normalize() yields an equal-keyed copy owned by the target manager sharing no node "
        "with the source, and round-trips to the original object. Non-trivial: some structure was requested >= 2 times "
        "through different routes or by different clients with >= 1 unrelated construction in between. Distinct: digest "
        "of the step sequence (route, client, key).")
COMPONENTS = {
    "real": ["FormulaManager (all constructors, create_node, constant caches, symbol table, normalize)", "FNode / FNodeContent "
             "(__eq__, __hash__, accessors, infix operators)", "pysmt.shortcuts", "SimpleTypeChecker at construction",
             "FormulaContextualizer"],
    "stub": ["none"],
}
ASSUMPTIONS = [
    "formulas are sampled by the blueprint generator; what the simulation adds is the order / route / interleaving "
    "dimension of the quantifier ('histories')",
    "accessor faithfulness is checked for constructors without heavy rewriting (Div / Pow are not generated); documented "
    "normalisations modelled: 0/1-ary collapse of n-ary operators, Not(Not x), GE/GT and BVUGT/BVUGE/BVSGT/BVSGE argument "
    "swap, Xor / EqualsOrIff / NotEquals expansion, numeric spellings",
]
TIERS = {
    "quick": {"runs": 16000, "budget_s": 75},
    "thorough": {"runs": 600000, "budget_s": 900},
}

ROUTES = ["mgr", "shortcut", "infix"]


def gen_plan(tape, cfg):
    symbols = richgen.default_symbols(tape)
    ctx = richgen.RichCtx(symbols)
    pool = []
    for i in range(tape.rint(5, 10, "pool.n")):
        srt = tape.choice([bp.BOOL, bp.BOOL, bp.INT, bp.REAL, symbols["b0"], symbols["A"]], "pool.sort")
        pool.append(richgen.gen(tape, srt, tape.rint(1, 3, "pool.depth"), ctx))
    nclients = tape.rint(2, 4, "clients")
    nenv = tape.rint(1, 3, "envs")
    ops = []
    for _ in range(tape.rint(30, 120, "nops")):
        k = tape.weighted([(10, "build"), (2, "illtyped"), (2, "simplify"), (2, "substitute"), (3, "normalize"),
                           (2, "const"), (2, "eqhash"), (1, "collapse"), (1, "quant_order"), (1, "normalize_clash"),
                           (1, "builtin_named_sort"), (1, "array_subst"), (1, "pickle"), (1, "equal_type"), (1, "parametric_sort"), (1, "env_stack"), (1, "bv_nary"), (1, "infix_neg"), (1, "reset_env"), (1, "identity_walk")], "op")
        o = {"op": k, "client": tape.draw(nclients, "client"), "env": tape.draw(nenv, "env"),
             "i": tape.draw(len(pool), "formula")}
        if k == "build":
            o["route"] = tape.choice(ROUTES, "route")
            o["spell"] = tape.draw(4, "spelling")
            o["varargs"] = bool(tape.draw(2, "varargs"))
        elif k == "illtyped":
            o["a"] = richgen.gen(tape, tape.choice([bp.INT, bp.REAL, bp.STRING, bp.BV(3)], "ill.a"), 1, ctx)
            o["b"] = richgen.gen(tape, tape.choice([bp.BOOL, bp.BV(2)], "ill.b"), 1, ctx)
        elif k == "const":
            o["kind"] = tape.choice(["real", "int", "bv", "sbv", "str", "bool", "realfloat"], "const.kind")
            o["fl"] = tape.choice([0.1, 3.3, 1e-3, -0.7, 2.5, 0.2, 1.1], "const.float")
            o["num"] = tape.rint(-6, 9, "const.num")
            o["den"] = tape.choice([1, 1, 2, 4, 3], "const.den")
            o["w"] = tape.rint(1, 6, "const.w")
            o["order"] = tape.shuffle([0, 1, 2, 3], "const.order")
            # an unusual spelling of the number (bool / IntEnum member / int subclass) tried first
            o["odd"] = tape.draw(4, "const.odd") if tape.chance(1, 3, "const.odd?") else 0
        elif k == "eqhash":
            o["j"] = tape.draw(len(pool), "other")
        elif k == "env_stack":
            # environments entered with `with`, possibly one that is already on the stack
            o["order"] = [tape.draw(nenv, "env_stack.env") for _ in range(tape.rint(2, 4, "env_stack.depth"))]
        elif k == "bv_nary":
            o["n"] = tape.rint(3, 6, "bv_nary.n")
            o["w"] = tape.rint(1, 3, "bv_nary.w")
            o["ctor"] = tape.choice(["BVAnd", "BVOr", "BVAdd", "BVMul", "BVXor"], "bv_nary.ctor")
            o["list"] = tape.chance(1, 2, "bv_nary.list")
        elif k == "infix_neg":
            o["num"] = tape.rint(-4, 6, "infix_neg.num")
            o["real"] = tape.chance(1, 2, "infix_neg.real")
        elif k == "normalize":
            o["to"] = tape.draw(nenv, "normalize.to")
        elif k == "quant_order":
            o["q"] = tape.choice(["forall", "exists"], "qo.q")
            o["dup"] = tape.chance(1, 4, "qo.dup")
        ops.append(o)
    return {"symbols": symbols, "pool": pool, "clients": nclients, "envs": nenv, "ops": ops}


def _odd_int(code, value):
    """the same number in an unusual Python spelling (None: use the plain one)"""
    import enum
    if code == 1 and value in (0, 1):
        return bool(value)
    if code == 2:
        return enum.IntEnum("Prio", {"MEMBER": value}).MEMBER
    if code == 3:
        return type("MyInt", (int,), {})(value)
    return None


def _check_constant_predicates(c, want, where):
    """is_*_constant(value[, width]) answer True exactly for the constant's own kind / value /
    width - including the falsy values 0, False and "" """
    kind = want[0]
    v = want[1]
    if kind == "int":
        others = [0, 1, -1, v + 1]
    elif kind == "real":
        others = [Fraction(0), Fraction(1), v + 1, v / 2 if v else Fraction(1, 2)]
    elif kind == "bv":
        others = [0, 1, v + 1]
    elif kind == "str":
        others = ["", "a", v + "x"]
    else:
        others = [True, False]
    pred = {"int": c.is_int_constant, "real": c.is_real_constant, "bv": c.is_bv_constant,
            "str": c.is_string_constant, "bool": c.is_bool_constant}[kind]
    facts = [("is_%s_constant()" % kind, pred(), True), ("is_%s_constant(own value)" % kind, pred(v), True)]
    for o_ in others:
        facts.append(("is_%s_constant(%r)" % (kind, o_), pred(o_), o_ == v))
    for k2, p2 in (("int", c.is_int_constant), ("real", c.is_real_constant), ("bv", c.is_bv_constant),
                   ("str", c.is_string_constant), ("bool", c.is_bool_constant)):
        if k2 != kind:
            facts.append(("is_%s_constant()" % k2, p2(), False))
    if kind == "bv":
        w = want[2]
        facts += [("is_bv_constant(v, w)", c.is_bv_constant(v, w), True),
                  ("is_bv_constant(value=0, width=w)", c.is_bv_constant(value=0, width=w), v == 0),
                  ("is_bv_constant(v, w+1)", c.is_bv_constant(v, w + 1), False),
                  ("is_bv_constant(width=w)", c.is_bv_constant(width=w), True),
                  ("is_bv_constant(width=w+1)", c.is_bv_constant(width=w + 1), False)]
    if kind in ("int", "real"):
        facts += [("is_zero()", c.is_zero(), v == 0), ("is_one()", c.is_one(), v == 1)]
    if kind == "bool":
        facts += [("is_true()", c.is_true(), v is True), ("is_false()", c.is_false(), v is False)]
    bad = [(n, got) for n, got, exp in facts if bool(got) != bool(exp)]
    if bad:
        raise Violation("C04:accessor:constant-predicate", "%s: constant %s answers %s" % (where, want, bad))


def _check_constant_accessors(c, want, where):
    """every accessor of a shared constant reports the value itself, in its plain type and text,
    whichever spelling reached the manager first"""
    _check_constant_predicates(c, want, where)
    if want[0] == "int":
        v = c.constant_value()
        if type(v) is not int or repr(v) != repr(want[1]) or c.serialize() != str(want[1]):
            raise Violation("C04:accessor:constant", "%s: Int(%d) reports value %r, text %s" % (where, want[1], v, c.serialize()))
    elif want[0] == "bv":
        v, w = want[1], want[2]
        signed = v - (1 << w) if v >= (1 << (w - 1)) else v
        got = {"constant_value": repr(c.constant_value()), "unsigned": repr(c.bv_unsigned_value()),
               "signed": repr(c.bv_signed_value()), "bin": c.bv_bin_str(), "bin_rev": c.bv_bin_str(reverse=True),
               "text": c.serialize(), "width": repr(c.bv_width())}
        exp = {"constant_value": repr(v), "unsigned": repr(v), "signed": repr(signed), "bin": format(v, "0%db" % w),
               "bin_rev": format(v, "0%db" % w)[::-1], "text": "%d_%d" % (v, w), "width": repr(w)}
        if got != exp:
            bad = sorted(k for k in exp if got[k] != exp[k])
            raise Violation("C04:accessor:constant", "%s: BV(%d, %d) reports %s, expected %s" %
                            (where, v, w, {k: got[k] for k in bad}, {k: exp[k] for k in bad}))


def shrink_plan(plan):
    for i, t in enumerate(plan["pool"]):
        for c in bp.shrink_candidates(t)[:10]:
            p = dict(plan)
            p["pool"] = plan["pool"][:i] + [c] + plan["pool"][i + 1:]
            yield p
    if plan["envs"] > 1:
        p = dict(plan, envs=1)
        yield p


def describe(plan):
    out = ["pool[%d] = %s" % (i, bp.pretty(t)) for i, t in enumerate(plan["pool"])]
    for o in plan["ops"]:
        extra = {k: v for k, v in o.items() if k not in ("op", "client", "env", "i", "a", "b")}
        out.append("client%d env%d: %s pool[%d] %s" % (o["client"], o["env"], o["op"], o["i"], extra))
    return out


# ------------------------------------------------------------------ routes

def _real_spelling(mgr, num, den, spell):
    fr = Fraction(num, den)
    if spell == 0:
        return mgr.Real(fr)
    if spell == 1:
        return mgr.Real((fr.numerator, fr.denominator))
    if spell == 2 and fr.denominator in (1, 2, 4, 8):
        return mgr.Real(float(fr))
    if spell == 3 and fr.denominator == 1:
        return mgr.Real(int(fr))
    return mgr.Real(fr)


def _bv_spelling(mgr, v, w, spell):
    if spell == 1:
        return mgr.BV("#b" + format(v, "0%db" % w))
    if spell == 2:
        return mgr.BV(format(v, "0%db" % w))
    if spell == 3:
        sv = v - (1 << w) if v >> (w - 1) else v
        return mgr.SBV(sv, w)
    return mgr.BV(v, w)


def build_route(t, env, route, spell, varargs):
    """build blueprint t in env through `route`; falls back to manager methods where the
    route has no counterpart"""
    mgr = env.formula_manager
    op = t[0]
    if op == "real":
        return _real_spelling(mgr, t[1], t[2], spell)
    if op == "bv":
        return _bv_spelling(mgr, t[1], t[2], spell)
    if op in bp.LEAVES or op in ("app", "arrayval") or op in bp.QUANT or op in bp.PARAM_OPS:
        if op in bp.QUANT:
            vs = [mgr.Symbol(n, bp.to_pysmt_type(s_, env)) for n, s_ in t[1]]
            body = build_route(t[2], env, route, spell, varargs)
            # the binders as any iterable: list, tuple, one-shot iterator, generator
            vs = [vs, tuple(vs), iter(vs), (v for v in vs)][spell % 4]
            return mgr.ForAll(vs, body) if op == "forall" else mgr.Exists(vs, body)
        if op == "app":
            f = mgr.Symbol(t[1], bp.to_pysmt_type(["Fun", t[2], t[3]], env))
            args = [build_route(x, env, route, spell, varargs) for x in t[4:]]
            if route == "infix":
                return f(*args)
            return mgr.Function(f, args)
        if op == "arrayval":
            pairs = [(build_route(k_, env, route, spell, varargs), build_route(v_, env, route, spell, varargs))
                     for k_, v_ in t[3]]
            if spell % 2:
                pairs = list(reversed(pairs))      # same assignment set, other insertion order
            return mgr.Array(bp.to_pysmt_type(t[1], env), build_route(t[2], env, route, spell, varargs), dict(pairs))
        if op in bp.PARAM_OPS:
            x = build_route(t[1 + bp.PARAM_OPS[op]], env, route, spell, varargs)
            if op == "extract":
                if route == "infix":
                    return x[t[2]:t[1]]
                return mgr.BVExtract(x, t[2], t[1])
            return {"zext": mgr.BVZExt, "sext": mgr.BVSExt, "rol": mgr.BVRol, "ror": mgr.BVRor}[op](x, t[1])
        return bp.build(t, env)
    a = [build_route(x, env, route, spell, varargs) for x in t[1:]]
    if op in ("bvshl", "bvlshr", "bvashr") and t[2][0] == "bv" and spell % 2 == 1:
        # documented: the shift amount may be given as a Python integer
        amount = int(t[2][1])
        if route == "infix" and op in ("bvshl", "bvlshr"):
            return (a[0] << amount) if op == "bvshl" else (a[0] >> amount)
        return {"bvshl": mgr.BVLShl, "bvlshr": mgr.BVLShr, "bvashr": mgr.BVAShr}[op](a[0], amount)
    if route == "shortcut":
        import pysmt.shortcuts as sc
        tab = {"and": sc.And, "or": sc.Or, "+": sc.Plus, "*": sc.Times}
        if op in tab:
            return tab[op](*a) if varargs else tab[op](a)
        tab2 = {"not": sc.Not, "implies": sc.Implies, "iff": sc.Iff, "ite": sc.Ite, "<=": sc.LE, "<": sc.LT,
                ">=": sc.GE, ">": sc.GT, "-": sc.Minus, "xor": sc.Xor, "=": sc.EqualsOrIff, "select": sc.Select,
                "store": sc.Store, "bvadd": sc.BVAdd, "bvand": sc.BVAnd, "bvult": sc.BVULT, "bvnot": sc.BVNot,
                "concat": sc.BVConcat, "toreal": sc.ToReal}
        if op in tab2:
            return tab2[op](*a)
    if route == "infix":
        try:
            if op == "and" and len(a) == 2:
                return a[0] & a[1]
            if op == "or" and len(a) == 2:
                return a[0] | a[1]
            if op == "not":
                return ~a[0]
            if op == "implies":
                return a[0].Implies(a[1])
            if op == "iff":
                return a[0].Iff(a[1])
            if op == "ite":
                return a[0].Ite(a[1], a[2])
            if op in ("+", "bvadd") and len(a) == 2:
                return a[0] + a[1]
            if op in ("-", "bvsub"):
                return a[0] - a[1]
            if op in ("bvmul",) or (op == "*" and len(a) == 2):
                return a[0] * a[1]
            if op == "<=":
                return a[0] <= a[1]
            if op == "<":
                return a[0] < a[1]
            if op == ">=":
                return a[0] >= a[1]
            if op == ">":
                return a[0] > a[1]
            if op == "bvand":
                return a[0] & a[1]
            if op == "bvor":
                return a[0] | a[1]
            if op == "bvxor":
                return a[0] ^ a[1]
            if op == "bvnot":
                return ~a[0]
            if op == "bvneg":
                return -a[0]
            if op == "bvult":
                return a[0].BVULT(a[1])
            if op == "bvsle":
                return a[0].BVSLE(a[1])
            if op == "select":
                return a[0].Select(a[1])
            if op == "store":
                return a[0].Store(a[1], a[2])
            if op == "concat":
                return a[0].BVConcat(a[1])
        except Exception:
            raise
    # manager route (and fallback): rebuild this node from the already-built children
    if op in ("and", "or", "+", "*") and not varargs and spell >= 2:
        # the arguments as a one-shot iterable
        ctor = {"and": mgr.And, "or": mgr.Or, "+": mgr.Plus, "*": mgr.Times}[op]
        return ctor(iter(a)) if spell == 2 else ctor(x for x in a)
    return _mgr_node(mgr, t, a, env)


def _mgr_node(mgr, t, a, env):
    op = t[0]
    if op == "not":
        return mgr.Not(a[0])
    if op == "and":
        return mgr.And(a)
    if op == "or":
        return mgr.Or(a)
    if op == "implies":
        return mgr.Implies(a[0], a[1])
    if op == "iff":
        return mgr.Iff(a[0], a[1])
    if op == "xor":
        return mgr.Xor(a[0], a[1])
    if op == "ite":
        return mgr.Ite(a[0], a[1], a[2])
    if op == "=":
        return mgr.EqualsOrIff(a[0], a[1])
    if op == "+":
        return mgr.Plus(a)
    if op == "*":
        return mgr.Times(a)
    if op == "-":
        return mgr.Minus(a[0], a[1])
    if op == "/":
        return mgr.Div(a[0], a[1])
    if op == "toreal":
        return mgr.ToReal(a[0])
    if op == "select":
        return mgr.Select(a[0], a[1])
    if op == "store":
        return mgr.Store(a[0], a[1], a[2])
    tab = {"<=": mgr.LE, "<": mgr.LT, ">=": mgr.GE, ">": mgr.GT,
           "bvult": mgr.BVULT, "bvule": mgr.BVULE, "bvugt": mgr.BVUGT, "bvuge": mgr.BVUGE,
           "bvslt": mgr.BVSLT, "bvsle": mgr.BVSLE, "bvsgt": mgr.BVSGT, "bvsge": mgr.BVSGE,
           "bvand": mgr.BVAnd, "bvor": mgr.BVOr, "bvxor": mgr.BVXor, "bvadd": mgr.BVAdd, "bvsub": mgr.BVSub,
           "bvmul": mgr.BVMul, "bvudiv": mgr.BVUDiv, "bvurem": mgr.BVURem, "bvshl": mgr.BVLShl,
           "bvlshr": mgr.BVLShr, "bvashr": mgr.BVAShr, "bvsdiv": mgr.BVSDiv, "bvsrem": mgr.BVSRem,
           "bvcomp": mgr.BVComp, "concat": mgr.BVConcat}
    if op in tab:
        return tab[op](a[0], a[1])
    if op == "bvnot":
        return mgr.BVNot(a[0])
    if op == "bvneg":
        return mgr.BVNeg(a[0])
    strops = {"str.++": lambda: mgr.StrConcat(a), "str.len": lambda: mgr.StrLength(a[0]),
              "str.contains": lambda: mgr.StrContains(a[0], a[1]), "str.prefixof": lambda: mgr.StrPrefixOf(a[0], a[1]),
              "str.suffixof": lambda: mgr.StrSuffixOf(a[0], a[1])}
    if op in strops:
        return strops[op]()
    raise ValueError("c04: no manager route for %r" % (op,))


def _bp_subst(t, sym, val):
    """blueprint-level substitution of a symbol by a term"""
    if t[0] == "sym":
        return val if (t[1] == sym[1]) else t
    if t[0] in bp.LEAVES:
        return t
    if t[0] == "app":
        return t[:4] + [_bp_subst(x, sym, val) for x in t[4:]]
    if t[0] in bp.QUANT:
        return t
    if t[0] == "arrayval":
        return ["arrayval", t[1], _bp_subst(t[2], sym, val), [[_bp_subst(k_, sym, val), _bp_subst(v_, sym, val)] for k_, v_ in t[3]]]
    base = 1 + bp.PARAM_OPS.get(t[0], 0)
    return t[:base] + [_bp_subst(x, sym, val) for x in t[base:]]


# expected node type / shape for constructors that are not rewritten
def _expected_shape(t):
    import pysmt.operators as pop
    op = t[0]
    m = {"implies": pop.IMPLIES, "iff": pop.IFF, "ite": pop.ITE, "<=": pop.LE, "<": pop.LT, "-": pop.MINUS,
         "toreal": pop.TOREAL, "select": pop.ARRAY_SELECT, "store": pop.ARRAY_STORE,
         "bvult": pop.BV_ULT, "bvule": pop.BV_ULE, "bvslt": pop.BV_SLT, "bvsle": pop.BV_SLE, "bvand": pop.BV_AND,
         "bvor": pop.BV_OR, "bvxor": pop.BV_XOR, "bvadd": pop.BV_ADD, "bvsub": pop.BV_SUB, "bvmul": pop.BV_MUL,
         "bvudiv": pop.BV_UDIV, "bvurem": pop.BV_UREM, "bvshl": pop.BV_LSHL, "bvlshr": pop.BV_LSHR,
         "bvashr": pop.BV_ASHR, "bvsdiv": pop.BV_SDIV, "bvsrem": pop.BV_SREM, "bvcomp": pop.BV_COMP,
         "concat": pop.BV_CONCAT, "bvnot": pop.BV_NOT, "bvneg": pop.BV_NEG, "extract": pop.BV_EXTRACT,
         "zext": pop.BV_ZEXT, "sext": pop.BV_SEXT, "rol": pop.BV_ROL, "ror": pop.BV_ROR,
         "forall": pop.FORALL, "exists": pop.EXISTS, "app": pop.FUNCTION}
    if op == "toreal" and t[1][0] == "int":
        return None          # documented: ToReal of an integer constant is the Real constant
    if op in m:
        return m[op]
    if op in ("and", "or", "+", "*") and len(t) - 1 >= 2:
        return {"and": pop.AND, "or": pop.OR, "+": pop.PLUS, "*": pop.TIMES}[op]
    return None


def execute(plan, tape):
    import pysmt.environment as penv
    from pysmt.environment import Environment
    from pysmt.exceptions import PysmtTypeError, PysmtValueError
    symbols = plan["symbols"]
    pool = plan["pool"]
    penv.reset_env()
    envs = [Environment() for _ in range(plan["envs"])]
    for e in envs:
        e.enable_infix_notation = True
    keyer = [Canon(user_names=None, ac=False) for _ in envs]
    key_obj = [dict() for _ in envs]        # structural key -> object
    obj_key = [dict() for _ in envs]        # id(object) -> key   (objects are kept alive in key_obj)
    hashes = [dict() for _ in envs]
    requested = [dict() for _ in envs]      # key -> list of (client, route, step)
    probes = {}
    trace = []
    nontrivial = False

    def probe(n):
        probes[n] = probes.get(n, 0) + 1

    def register(ei, f, client, route, step, where):
        """invariants 1, 2, 4 for f and every node reachable from it"""
        nonlocal nontrivial
        stack = [f]
        seen = set()
        while stack:
            x = stack.pop()
            if id(x) in seen:
                continue
            seen.add(id(x))
            k = keyer[ei].key(x)
            prev = key_obj[ei].get(k)
            if prev is None:
                if id(x) in obj_key[ei] and obj_key[ei][id(x)] != k:
                    raise Violation("C04:one-object-two-structures",
                                    "%s: object %s already stands for another structure" % (where, _s(x)))
                key_obj[ei][k] = x
                obj_key[ei][id(x)] = k
                hashes[ei][k] = hash(x)
            else:
                if prev is not x:
                    raise Violation("C04:two-objects-one-structure",
                                    "%s: %s was built again as a different object (ids %d / %d)" %
                                    (where, _s(x), prev.node_id(), x.node_id()))
                if hash(x) != hashes[ei][k]:
                    raise Violation("C04:hash-unstable", "%s: hash of %s changed" % (where, _s(x)))
            if x not in envs[ei].formula_manager:
                raise Violation("C04:not-owned", "%s: %s is not owned by the manager that built it" % (where, _s(x)))
            stack.extend(x.args())
        k = keyer[ei].key(f)
        lst = requested[ei].setdefault(k, [])
        if lst and (lst[-1][0] != client or lst[-1][1] != route) and step - lst[-1][2] > 1:
            nontrivial = True
        lst.append((client, route, step))
        return k

    def faithful(ei, t, f, where):
        """invariant 3: accessors report what the blueprint says (non-rewritten constructors)"""
        op = t[0]
        if op == "sym":
            if not f.is_symbol() or f.symbol_name() != t[1] or \
                    str(f.symbol_type()) != str(bp.to_pysmt_type(t[2], envs[ei])):
                raise Violation("C04:accessor:symbol", "%s: %s built as %s" % (where, bp.pretty(t), _s(f)))
            return
        if op == "bool":
            if not f.is_bool_constant() or f.constant_value() != bool(t[1]):
                raise Violation("C04:accessor:constant", "%s: %s built as %s" % (where, bp.pretty(t), _s(f)))
            return
        if op == "int":
            if not f.is_int_constant() or f.constant_value() != t[1]:
                raise Violation("C04:accessor:constant", "%s: %s built as %s" % (where, bp.pretty(t), _s(f)))
            return
        if op == "real":
            if not f.is_real_constant() or Fraction(f.constant_value()) != Fraction(t[1], t[2]):
                raise Violation("C04:accessor:constant", "%s: %s built as %s" % (where, bp.pretty(t), _s(f)))
            return
        if op == "bv":
            if not f.is_bv_constant() or f.constant_value() != t[1] or f.bv_width() != t[2]:
                raise Violation("C04:accessor:constant", "%s: %s built as %s" % (where, bp.pretty(t), _s(f)))
            _check_constant_accessors(f, ("bv", t[1], t[2]), where)
            return
        if op == "str":
            if not f.is_string_constant() or f.constant_value() != t[1]:
                raise Violation("C04:accessor:constant", "%s: %s built as %s" % (where, bp.pretty(t), _s(f)))
            return
        nt = _expected_shape(t)
        if nt is None:
            return
        if f.node_type() != nt:
            raise Violation("C04:accessor:node-type", "%s: %s built as %s (node type %d, expected %d)" %
                            (where, bp.pretty(t), _s(f), f.node_type(), nt))
        kids = bp.args_of(t)
        if op not in ("app",) and op not in bp.QUANT and len(f.args()) != len(kids):
            raise Violation("C04:accessor:arity", "%s: %s has %d arguments, built from %d" %
                            (where, _s(f), len(f.args()), len(kids)))
        if op == "extract" and (f.bv_extract_start(), f.bv_extract_end()) != (t[2], t[1]):
            raise Violation("C04:accessor:payload", "%s: extract bounds %s for %s" %
                            (where, (f.bv_extract_start(), f.bv_extract_end()), bp.pretty(t)))
        if op in ("rol", "ror") and f.bv_rotation_step() != t[1]:
            raise Violation("C04:accessor:payload", "%s: rotation step %s for %s" % (where, f.bv_rotation_step(), bp.pretty(t)))
        if op in ("zext", "sext") and f.bv_extend_step() != t[1]:
            raise Violation("C04:accessor:payload", "%s: extension step %s for %s" % (where, f.bv_extend_step(), bp.pretty(t)))
        if op in bp.QUANT:
            got = [(v.symbol_name(), str(v.symbol_type())) for v in f.quantifier_vars()]
            want = [(n, str(bp.to_pysmt_type(s_, envs[ei]))) for n, s_ in t[1]]
            if got != want:
                raise Violation("C04:accessor:payload", "%s: quantifier variables %s for %s" % (where, got, bp.pretty(t)))
        if op == "app" and f.function_name().symbol_name() != t[1]:
            raise Violation("C04:accessor:payload", "%s: function name %s for %s" % (where, f.function_name(), bp.pretty(t)))
        # children: the argument objects are the objects built for the children blueprints
        for kt, kf in zip(kids, f.args()):
            want = bp.build(kt, envs[ei])
            if want is not kf:
                raise Violation("C04:accessor:argument", "%s: argument %s of %s is not the object built for %s" %
                                (where, _s(kf), _s(f), bp.pretty(kt)))

    built = [dict() for _ in envs]     # pool index -> FNode
    for step, o in enumerate(plan["ops"]):
        ei = o["env"] % len(envs)
        env = envs[ei]
        mgr = env.formula_manager
        i = o["i"] % len(pool)
        t = pool[i]
        k = o["op"]
        where = "step %d client%d env%d %s pool[%d]" % (step, o["client"], ei, k, i)
        penv.push_env(env)
        try:
            if k == "build":
                try:
                    f = build_route(t, env, o["route"], o.get("spell", 0), o.get("varargs", False))
                except (PysmtTypeError, PysmtValueError) as ex:
                    raise Violation("C04:valid-construction-rejected", "%s via %s: %s" % (where, o["route"], str(ex)[:150]))
                key = register(ei, f, o["client"], o["route"], step, where + " via " + o["route"])
                ref = bp.build(t, env)
                if ref is not f:
                    raise Violation("C04:route-dependent-object",
                                    "%s: route %s built %s, manager methods built %s" % (where, o["route"], _s(f), _s(ref)))
                faithful(ei, t, f, where)
                # every sub-blueprint too
                for sub in richgen.subterms(t)[1:6]:
                    try:
                        faithful(ei, sub, bp.build(sub, env), where + " (sub-term)")
                    except (PysmtTypeError, PysmtValueError):
                        pass
                built[ei][i] = f
                if i in built[ei]:
                    probe("rebuilt")
                trace.append(("build", o["client"], ei, o["route"], key))
            elif k == "illtyped":
                try:
                    a, b = bp.build(o["a"], env), bp.build(o["b"], env)
                    r = mgr.Plus(a, b) if tape.chance(1, 2, "ill.which") else mgr.And(a, b)
                    trace.append(("illtyped-accepted?", str(r.get_type())))
                except (PysmtTypeError, PysmtValueError):
                    probe("illtyped_rejected")
                    trace.append(("illtyped", o["client"], ei))
            elif k in ("simplify", "substitute"):
                f = bp.build(t, env)
                if k == "simplify":
                    r = f.simplify()
                else:
                    syms = [x for x in richgen.subterms(t) if x[0] == "sym" and not bp.is_fun(x[2]) and not bp.is_array(x[2])
                            and not bp.is_usort(x[2])]
                    if not syms:
                        continue
                    s0 = syms[tape.draw(len(syms), "subst.which")]
                    cval = richgen.leaf_const(tape, s0[2])
                    r = f.substitute({bp.build(s0, env): bp.build(cval, env)})
                    # substitution rebuilds the formula with the manager's constructors: the result is
                    # the very object obtained by building the substituted blueprint directly
                    t2 = _bp_subst(t, s0, cval)
                    if not richgen.has_quant(t):
                        direct = bp.build(t2, env)
                        if direct is not r:
                            raise Violation("C04:substitute-vs-rebuild",
                                            "%s: substitute({%s: %s}) returned %s, building the substituted formula gives %s" %
                                            (where, s0[1], bp.pretty(cval), _s(r), _s(direct)))
                        probe("substitute_equals_rebuild")
                register(ei, r, o["client"], k, step, where)
                trace.append((k, o["client"], ei))
            elif k == "const":
                kind = o["kind"]
                objs = []
                if kind == "real":
                    fr = Fraction(o["num"], o["den"])
                    for sp in o.get("order", [0, 1, 2, 3]):
                        objs.append(_real_spelling(mgr, fr.numerator, fr.denominator, sp))
                    want = ("real", fr)
                    probe("same_real_four_spellings")
                elif kind == "realfloat":
                    # a float denotes exactly its binary value: every spelling of that value is one object
                    fl = o.get("fl", 0.1)
                    exact = Fraction(fl)
                    makers = [lambda: mgr.Real(fl), lambda: mgr.Real(exact),
                              lambda: mgr.Real((exact.numerator, exact.denominator)), lambda: mgr.Real(fl)]
                    for sp in o.get("order", [0, 1, 2, 3]):
                        objs.append(makers[sp]())
                    want = ("real", exact)
                    # and the decimal fraction the literal looks like is a different value
                    import decimal
                    looks = Fraction(decimal.Decimal(repr(fl)))
                    if looks != exact:
                        other = mgr.Real(looks)
                        register(ei, other, o["client"], "const", step, where)
                        if other is objs[0] or Fraction(other.constant_value()) != looks:
                            raise Violation("C04:constant-spelling",
                                            "%s: Real(%r) [= %s exactly] and Real(%s) are one object / misreport their value" %
                                            (where, fl, exact, looks))
                    probe("real_from_non_dyadic_float")
                elif kind == "int":
                    odd = _odd_int(o.get("odd", 0), o["num"])
                    if odd is not None:
                        try:
                            objs.append(mgr.Int(odd))
                            probe("odd_int_spelling_accepted")
                        except PysmtTypeError:
                            probe("odd_int_spelling_refused")
                    objs += [mgr.Int(o["num"]), mgr.Int(int(o["num"]))]
                    want = ("int", o["num"])
                elif kind in ("bv", "sbv"):
                    w = o["w"]
                    v = o["num"] % (1 << w)
                    odd = _odd_int(o.get("odd", 0), v)
                    if odd is not None:
                        try:
                            objs.append(mgr.BV(odd, w))
                            probe("odd_int_spelling_accepted")
                        except PysmtTypeError:
                            probe("odd_int_spelling_refused")
                    for sp in o.get("order", [0, 1, 2, 3]):
                        objs.append(_bv_spelling(mgr, v, w, sp))
                    want = ("bv", v, w)
                elif kind == "str":
                    objs = [mgr.String("s%d" % o["num"]), mgr.String("s%d" % o["num"])]
                    want = ("str", "s%d" % o["num"])
                else:
                    objs = [mgr.Bool(o["num"] > 0), mgr.TRUE() if o["num"] > 0 else mgr.FALSE()]
                    want = ("bool", o["num"] > 0)
                for x in objs:
                    register(ei, x, o["client"], "const", step, where)
                    if x is not objs[0]:
                        raise Violation("C04:constant-spelling", "%s: spellings of %s gave different objects %s / %s" %
                                        (where, want, _s(objs[0]), _s(x)))
                c0 = objs[0]
                ok = (want[0] == "real" and c0.is_real_constant() and Fraction(c0.constant_value()) == want[1]) or \
                     (want[0] == "int" and c0.is_int_constant() and c0.constant_value() == want[1]) or \
                     (want[0] == "bv" and c0.is_bv_constant() and c0.constant_value() == want[1] and c0.bv_width() == want[2]) or \
                     (want[0] == "str" and c0.is_string_constant() and c0.constant_value() == want[1]) or \
                     (want[0] == "bool" and c0.is_bool_constant() and c0.constant_value() == want[1])
                if not ok:
                    raise Violation("C04:accessor:constant", "%s: constant %s built as %s" % (where, want, _s(c0)))
                _check_constant_accessors(c0, want, where)
                # a Real and an Int of equal value are different structures
                if want[0] == "real" and want[1].denominator == 1:
                    iv = mgr.Int(int(want[1]))
                    if iv is c0 or iv == c0:
                        raise Violation("C04:real-int-confused", "%s: Real(%s) and Int(%s) are one object" % (where, want[1], want[1]))
                trace.append(("const", kind))
            elif k == "pickle":
                import pickle
                src = bp.build(t, env)
                register(ei, src, o["client"], "src", step, where)
                try:
                    cp = pickle.loads(pickle.dumps(src))
                except Exception as ex:
                    # formulas hold plain data only (operator, argument nodes, numbers, strings, types)
                    raise Violation("C04:pickle-failed", "%s: %s cannot be pickled: %s: %s" %
                                    (where, _s(src), type(ex).__name__, str(ex)[:120]))
                # an unpickled formula belongs to no manager; normalising it into the environment it came
                # from gives back the original object, into another one an equal, owned, disjoint copy
                back = mgr.normalize(cp)
                if back is not src:
                    raise Violation("C04:normalize:round-trip",
                                    "%s: normalize(unpickled copy) gave %s, not the original object %s" % (where, _s(back), _s(src)))
                if len(envs) > 1:
                    ti = (ei + 1) % len(envs)
                    other = envs[ti].formula_manager.normalize(cp)
                    penv.push_env(envs[ti])
                    try:
                        register(ti, other, o["client"], "pickle", step, where + " (copy)")
                    finally:
                        penv.pop_env()
                    if keyer[ti].key(other) != keyer[ei].key(src):
                        raise Violation("C04:normalize:structure", "%s: copy of the unpickled formula %s differs from %s" %
                                        (where, _s(other), _s(src)))
                probe("pickle_roundtrip")
                trace.append(("pickle", ei))
            elif k == "array_subst":
                import pysmt.typing as T
                x, y, z = [mgr.Symbol(n, T.INT) for n in ("as_x", "as_y", "as_z")]
                arr = mgr.Array(T.INT, x, {mgr.Int(1): y, mgr.Int(2): z, mgr.Int(5): mgr.Int(9)})
                register(ei, arr, o["client"], "array", step, where)
                # an assignment that becomes equal to the default disappears, as in a direct construction
                got = arr.substitute({y: x})
                want = mgr.Array(T.INT, x, {mgr.Int(2): z, mgr.Int(5): mgr.Int(9)})
                if got is not want:
                    raise Violation("C04:substitute-vs-rebuild",
                                    "%s: %s with as_y := as_x gave %s, the directly built array value is %s" %
                                    (where, _s(arr), _s(got), _s(want)))
                # a rewritten index keeps the canonical order of assignments
                got2 = arr.substitute({mgr.Int(1): mgr.Int(7), mgr.Int(5): mgr.Int(0)})
                want2 = mgr.Array(T.INT, x, {mgr.Int(7): y, mgr.Int(2): z, mgr.Int(0): mgr.Int(9)})
                register(ei, got2, o["client"], "array", step, where)
                if got2 is not want2:
                    raise Violation("C04:substitute-vs-rebuild",
                                    "%s: re-indexed array value %s is not the directly built %s" % (where, _s(got2), _s(want2)))
                for idx, val in ((mgr.Int(7), y), (mgr.Int(2), z), (mgr.Int(0), mgr.Int(9)), (mgr.Int(4), x)):
                    if got2.array_value_get(idx) is not val:
                        raise Violation("C04:accessor:array-value-get",
                                        "%s: %s.array_value_get(%s) = %s, expected %s" %
                                        (where, _s(got2), idx, got2.array_value_get(idx), val))
                probe("array_value_substitution")
                trace.append(("array_subst",))
            elif k == "normalize_clash":
                # the target environment already holds same-named symbols of ANOTHER type such that
                # the re-typed formula would still type-check: the copy must be refused or be faithful
                import pysmt.typing as T
                if len(envs) < 2:
                    continue
                ti = (ei + 1) % len(envs)
                tmgr = envs[ti].formula_manager
                na, nb = "clash_a%d_%d" % (ei, ti), "clash_b%d_%d" % (ei, ti)
                src = mgr.Equals(mgr.Symbol(na, T.INT), mgr.Symbol(nb, T.INT))
                tmgr.Symbol(na, T.REAL)
                tmgr.Symbol(nb, T.REAL)
                try:
                    cp = tmgr.normalize(src)
                except PysmtTypeError:
                    probe("normalize_refused_on_type_clash")
                    trace.append(("normalize_clash", "refused"))
                    continue
                if Canon(user_names=None, ac=False).key(cp) != Canon(user_names=None, ac=False).key(src):
                    raise Violation("C04:normalize:structure",
                                    "%s: the target environment holds %s, %s with another type; normalize() returned %s "
                                    "(symbol types %s) for %s (symbol types %s)" %
                                    (where, na, nb, _s(cp), [str(a_.symbol_type()) for a_ in cp.args()], _s(src),
                                     [str(a_.symbol_type()) for a_ in src.args()]))
                trace.append(("normalize_clash", "copied"))
            elif k == "reset_env":
                # reset_env() replaces the current environment by a brand-new one; an environment (and
                # its formulas) a caller still holds stays what it was
                scratch = Environment()
                penv.push_env(scratch)
                try:
                    try:
                        f1 = bp.build(t, scratch)
                    except (PysmtTypeError, PysmtValueError):
                        f1 = None
                    mgr1 = scratch.formula_manager
                    new_env = penv.reset_env()
                    if new_env is scratch or penv.get_env() is scratch:
                        raise Violation("C04:env-stack", "%s: reset_env() handed back the environment it replaced" % where)
                    if scratch.formula_manager is not mgr1:
                        raise Violation("C04:env-stack", "%s: reset_env() gave the replaced environment (still held by the caller) a new formula manager" % where)
                    if f1 is not None:
                        if f1 not in scratch.formula_manager:
                            raise Violation("C04:not-owned", "%s: after reset_env() a formula of the replaced environment is not in that environment's manager any more" % where)
                        if bp.build(t, scratch) is not f1:
                            raise Violation("C04:one-structure-two-objects",
                                            "%s: after reset_env() the replaced environment builds a second object for %s" % (where, _s(f1)))
                finally:
                    penv.pop_env()
                probe("reset_env")
                trace.append(("reset_env",))
            elif k == "identity_walk":
                # re-creating a formula in another environment with the identity walker of that
                # environment gives the node that environment builds itself (function symbols included)
                if len(envs) > 1:
                    from pysmt.walkers import IdentityDagWalker
                    src = bp.build(t, env)
                    uses_user_sort = any(bp.is_usort(s_) or (bp.is_array(s_) and (bp.is_usort(s_[1]) or bp.is_usort(s_[2])))
                                         or (bp.is_fun(s_) and any(bp.is_usort(a_) for a_ in list(s_[1]) + [s_[2]]))
                                         for s_ in bp.symbols_of(t).values())
                    if not uses_user_sort:
                        ti = (ei + 1) % len(envs)
                        want = envs[ti].formula_manager.normalize(src)
                        penv.push_env(envs[ti])
                        try:
                            got = IdentityDagWalker(env=envs[ti]).walk(src)
                            register(ti, got, o["client"], "identity_walk", step, where + " (copy)")
                        finally:
                            penv.pop_env()
                        if got is not want:
                            raise Violation("C04:normalize:structure",
                                            "%s: the identity walker of the destination rebuilt %s as another object than normalize()" %
                                            (where, _s(src)))
                        probe("identity_walk_across_environments")
                trace.append(("identity_walk",))
            elif k == "env_stack":
                # `with env:` makes env the global environment and restores the previous one on
                # exit, also when the same environment is entered again further up the stack; what
                # the shortcuts build in between belongs to the environment that is current
                import pysmt.shortcuts as sc

                def nest(seq, depth):
                    if not seq:
                        return
                    e = envs[seq[0] % len(envs)]
                    before = penv.get_env()
                    with e:
                        if penv.get_env() is not e:
                            raise Violation("C04:env-stack", "%s: inside `with env%d` another environment is current" % (where, seq[0] % len(envs)))
                        try:
                            f_ = build_route(t, e, "shortcut", 0, False)
                        except (PysmtTypeError, PysmtValueError):
                            f_ = None
                        if f_ is not None:
                            register(seq[0] % len(envs), f_, o["client"], "shortcut", step, where + " (depth %d)" % depth)
                        nest(seq[1:], depth + 1)
                        if penv.get_env() is not e:
                            raise Violation("C04:env-stack", "%s: after leaving an inner `with`, env%d is not current again (order %s)" %
                                            (where, seq[0] % len(envs), o["order"]))
                    if penv.get_env() is not before:
                        raise Violation("C04:env-stack", "%s: leaving `with env%d` did not restore the previous environment (order %s)" %
                                        (where, seq[0] % len(envs), o["order"]))
                nest(list(o["order"]), 0)
                probe("env_stack")
                trace.append(("env_stack", tuple(o["order"])))
            elif k == "bv_nary":
                # documented: more than two arguments give the left-associative formula
                w = o["w"]
                xs = [mgr.Symbol("bn%d_%d" % (w, j), bp.to_pysmt_type(bp.BV(w), env)) for j in range(o["n"])]
                ctor = getattr(mgr, o["ctor"]) if hasattr(mgr, o["ctor"]) else None
                if ctor is not None:
                    try:
                        got = ctor(xs) if o["list"] else ctor(*xs)
                    except TypeError:
                        got = None      # a binary-only constructor
                    if got is not None:
                        want = xs[0]
                        for x in xs[1:]:
                            want = ctor(want, x)
                        register(ei, got, o["client"], "bv_nary", step, where)
                        if got is not want:
                            raise Violation("C04:accessor:argument", "%s: %s of %d operands is %s, not the left-associative %s" %
                                            (where, o["ctor"], o["n"], _s(got), _s(want)))
                        probe("bv_nary_left_fold")
                trace.append(("bv_nary", o["ctor"], o["n"]))
            elif k == "infix_neg":
                # -t on a non-bit-vector term is the product with -1, also for constants
                if env.enable_infix_notation:
                    c = mgr.Real(o["num"]) if o["real"] else mgr.Int(o["num"])
                    minus1 = mgr.Real(-1) if o["real"] else mgr.Int(-1)
                    for x in (c, bp.build(t, env)):
                        if not (x.get_type().is_int_type() or x.get_type().is_real_type()):
                            continue
                        m1 = mgr.Real(-1) if x.get_type().is_real_type() else mgr.Int(-1)
                        got = -x
                        want = mgr.Times(x, m1)
                        register(ei, got, o["client"], "infix_neg", step, where)
                        if got is not want:
                            raise Violation("C04:route-dependent-object", "%s: -(%s) built %s, Times(%s, -1) is %s" %
                                            (where, _s(x), _s(got), _s(x), _s(want)))
                    probe("infix_negation")
                trace.append(("infix_neg", o["num"]))
            elif k == "parametric_sort":
                # symbols whose type mentions a parametric user sort (below the top level too) are
                # copied into another environment faithfully and come back as the original object
                import pysmt.typing as T
                tm = env.type_manager
                Pair = tm.Type("Pair", 2)
                p_ir = tm.get_type_instance(Pair, T.INT, T.REAL)
                tys = {"ps_top": p_ir, "ps_arr": tm.ArrayType(T.INT, p_ir),
                       "ps_nest": tm.get_type_instance(Pair, tm.get_type_instance(Pair, T.INT, T.INT), T.REAL),
                       "ps_fun": tm.FunctionType(T.BOOL, [p_ir, T.INT])}
                for nm in sorted(tys):
                    src = mgr.Symbol(nm, tys[nm])
                    register(ei, src, o["client"], "parametric_sort", step, where)
                    if len(envs) > 1:
                        ti = (ei + 1) % len(envs)
                        cp = envs[ti].formula_manager.normalize(src)
                        penv.push_env(envs[ti])
                        try:
                            register(ti, cp, o["client"], "parametric_sort", step, where + " (copy)")
                        finally:
                            penv.pop_env()
                        if keyer[ti].key(cp) != keyer[ei].key(src):
                            raise Violation("C04:normalize:structure", "%s: copy of %s : %s is %s : %s" %
                                            (where, nm, src.symbol_type(), cp, cp.symbol_type()))
                        if mgr.normalize(cp) is not src:
                            raise Violation("C04:normalize:round-trip", "%s: %s does not come back as the original object" % (where, nm))
                probe("parametric_sort")
                trace.append(("parametric_sort",))
            elif k == "equal_type":
                # a type given as an equal but distinct object (built directly from the type classes)
                # denotes the same type: same symbol object, same constant-array object
                import pysmt.typing as T

                def fresh_type(srt):
                    if bp.is_bv(srt):
                        return T._BVType(srt[1])
                    if bp.is_array(srt):
                        return T._ArrayType(fresh_type(srt[1]), fresh_type(srt[2]))
                    if bp.is_fun(srt):
                        return T._FunctionType(fresh_type(srt[2]), [fresh_type(a) for a in srt[1]])
                    return bp.to_pysmt_type(srt, env)
                syms_t = bp.symbols_of(t)
                for nm in sorted(syms_t):
                    srt = syms_t[nm]
                    if not (bp.is_bv(srt) or bp.is_array(srt) or bp.is_fun(srt)):
                        continue
                    first = mgr.Symbol(nm, bp.to_pysmt_type(srt, env))
                    ft = fresh_type(srt)
                    if ft is first.symbol_type():
                        continue
                    again = mgr.Symbol(nm, ft)
                    register(ei, again, o["client"], "equal_type", step, where)
                    if again is not first:
                        raise Violation("C04:one-structure-two-objects",
                                        "%s: Symbol(%r) requested with an equal but distinct type object gave another object" % (where, nm))
                    if mgr.get_or_create_symbol(nm, fresh_type(srt)) is not first:
                        raise Violation("C04:one-structure-two-objects",
                                        "%s: get_or_create_symbol(%r) with an equal type object gave another object" % (where, nm))
                    if bp.is_bv(srt):
                        a1 = mgr.Array(bp.to_pysmt_type(srt, env), mgr.Int(0))
                        a2 = mgr.Array(fresh_type(srt), mgr.Int(0))
                        register(ei, a1, o["client"], "equal_type", step, where)
                        register(ei, a2, o["client"], "equal_type", step, where)
                        if a1 is not a2:
                            raise Violation("C04:one-structure-two-objects",
                                            "%s: constant arrays indexed by equal type objects are different objects" % where)
                    probe("equal_but_distinct_type_object")
                trace.append(("equal_type",))
            elif k == "builtin_named_sort":
                # a user sort that is merely *named* like a built-in sort is a different sort
                import pysmt.typing as T
                for nm, builtin, const in (("Int", T.INT, lambda: mgr.Int(0)), ("Real", T.REAL, lambda: mgr.Real(0)),
                                           ("Bool", T.BOOL, lambda: mgr.TRUE())):
                    S = env.type_manager.Type(nm, 0)
                    if S == builtin or builtin == S:
                        raise Violation("C04:sort-identity", "%s: user sort named %s compares equal to the built-in sort" % (where, nm))
                    a1 = mgr.Array(S, const())
                    a2 = mgr.Array(builtin, const())
                    register(ei, a1, o["client"], "sort", step, where)
                    register(ei, a2, o["client"], "sort", step, where)
                    if a1 is a2:
                        raise Violation("C04:one-object-two-structures",
                                        "%s: constant arrays indexed by the user sort %s and by the built-in sort are one object" % (where, nm))
                    if a1.array_value_index_type() != S or a2.array_value_index_type() != builtin:
                        raise Violation("C04:accessor:payload", "%s: array index type misreported for sort %s" % (where, nm))
                    s1 = mgr.Symbol("bn_%s" % nm, S)
                    try:
                        s2 = mgr.Symbol("bn_%s" % nm, builtin)
                        raise Violation("C04:one-object-two-structures",
                                        "%s: Symbol(bn_%s) of user sort %s and of the built-in sort were merged (%s)" %
                                        (where, nm, nm, s2.symbol_type()))
                    except PysmtTypeError:
                        pass
                    if len(envs) > 1:
                        # copied into another environment, both keep their own sort (they print alike)
                        ti = (ei + 1) % len(envs)
                        tmgr = envs[ti].formula_manager
                        pair = [mgr.Symbol("bnu_%s" % nm, S), mgr.Symbol("bnb_%s" % nm, builtin)]
                        if o["client"] % 2:
                            pair.reverse()
                        for src_ in pair:
                            register(ei, src_, o["client"], "sort", step, where)
                            cp_ = tmgr.normalize(src_)
                            if canon_tkey(cp_.symbol_type()) != canon_tkey(src_.symbol_type()):
                                raise Violation("C04:normalize:structure",
                                                "%s: the copy of %s : %s has type %s" %
                                                (where, src_, canon_tkey(src_.symbol_type()), canon_tkey(cp_.symbol_type())))
                    for first_user in ((o["client"] % 2 == 0), ):
                        tm_ = env.type_manager
                        reqs = [("user", lambda: tm_.ArrayType(T.REAL, S)), ("builtin", lambda: tm_.ArrayType(T.REAL, builtin))]
                        if not first_user:
                            reqs.reverse()
                        got_ = {lab: mk() for lab, mk in reqs}
                        if got_["user"] == got_["builtin"] or canon_tkey(got_["user"].elem_type) != canon_tkey(S) \
                                or canon_tkey(got_["builtin"].elem_type) != canon_tkey(builtin):
                            raise Violation("C04:sort-identity",
                                            "%s: array types over the user sort %s and over the built-in sort are confused (%s / %s)" %
                                            (where, nm, canon_tkey(got_["user"]), canon_tkey(got_["builtin"])))
                    ft1 = T.FunctionType(T.BOOL, [S])
                    ft2 = T.FunctionType(T.BOOL, [builtin])
                    if ft1 == ft2:
                        raise Violation("C04:sort-identity", "%s: function types over user sort %s and the built-in sort are equal" % (where, nm))
                probe("builtin_named_sort")
                trace.append(("builtin_named_sort",))
            elif k == "quant_order":
                import pysmt.typing as T
                body = bp.build(t, env) if bp.sort_of(t) == bp.BOOL else mgr.TRUE()
                # binder symbols created in an order unrelated to the order they are bound in
                names = ["qo_c%d" % o["client"], "qo_b", "qo_a"]
                vs = [mgr.Symbol(n, T.INT if j != 1 else T.BOOL) for j, n in enumerate(names)]
                Q = mgr.ForAll if o["q"] == "forall" else mgr.Exists
                orders = [[vs[2], vs[0]], [vs[0], vs[2]], [vs[1], vs[2], vs[0]], [vs[0], vs[1], vs[2]]]
                if o.get("dup"):
                    orders.append([vs[0], vs[0]])
                objs = []
                for od in orders:
                    qf = Q(od, body)
                    register(ei, qf, o["client"], "quant", step, where)
                    if list(qf.quantifier_vars()) != od:
                        raise Violation("C04:accessor:payload", "%s: %s over %s reports variables %s" %
                                        (where, o["q"], [str(v) for v in od], [str(v) for v in qf.quantifier_vars()]))
                    if Q(list(od), body) is not qf:
                        raise Violation("C04:two-objects-one-structure", "%s: the same quantifier built twice" % where)
                    objs.append(qf)
                for a_ in range(len(objs)):
                    for b_ in range(a_ + 1, len(objs)):
                        if objs[a_] is objs[b_]:
                            raise Violation("C04:one-object-two-structures",
                                            "%s: binder lists %s and %s gave one object" %
                                            (where, [str(v) for v in orders[a_]], [str(v) for v in orders[b_]]))
                probe("quantifier_binder_orders")
                trace.append(("quant_order", o["q"]))
            elif k == "collapse":
                f = bp.build(t, env)
                srt = bp.sort_of(t)
                checks = []
                if srt == bp.BOOL:
                    checks = [("And([x])", mgr.And([f]), f), ("And(x)", mgr.And(f), f), ("Or([x])", mgr.Or([f]), f),
                              ("And([])", mgr.And([]), mgr.TRUE()), ("Or([])", mgr.Or([]), mgr.FALSE()),
                              ("Not(Not(x))", mgr.Not(mgr.Not(f)), f), ("And(x,x) twice", mgr.And(f, f), mgr.And([f, f]))]
                elif srt in (bp.INT, bp.REAL):
                    checks = [("Plus([x])", mgr.Plus([f]), f), ("Times([x])", mgr.Times([f]), f),
                              ("GE(x,x)", mgr.GE(f, f), mgr.LE(f, f)), ("GT(x,x)", mgr.GT(f, f), mgr.LT(f, f))]
                elif bp.is_bv(srt):
                    checks = [("BVUGT", mgr.BVUGT(f, f), mgr.BVULT(f, f)), ("BVSGE", mgr.BVSGE(f, f), mgr.BVSLE(f, f))]
                for name, got, want in checks:
                    register(ei, got, o["client"], "collapse", step, where)
                    if got is not want:
                        raise Violation("C04:normalisation:" + name.split("(")[0],
                                        "%s: %s returned %s, expected the object %s" % (where, name, _s(got), _s(want)))
                probe("collapse_checked")
                trace.append(("collapse", i))
            elif k == "eqhash":
                j = o["j"] % len(pool)
                fa, fb = bp.build(t, env), bp.build(pool[j], env)
                register(ei, fa, o["client"], "eq", step, where)
                register(ei, fb, o["client"], "eq", step, where)
                if (fa == fb) != (fa is fb):
                    raise Violation("C04:eq-vs-identity", "%s: %s == %s is %s but identity is %s" %
                                    (where, _s(fa), _s(fb), fa == fb, fa is fb))
                if (keyer[ei].key(fa) == keyer[ei].key(fb)) != (fa is fb):
                    raise Violation("C04:two-objects-one-structure" if fa is not fb else "C04:one-object-two-structures",
                                    "%s: %s / %s" % (where, _s(fa), _s(fb)))
                trace.append(("eqhash", i, j, fa is fb))
            elif k == "normalize":
                if len(envs) < 2:
                    continue
                src = bp.build(t, env)
                register(ei, src, o["client"], "src", step, where)
                ti = o.get("to", 1 - ei) % len(envs)
                if ti == ei:
                    ti = (ei + 1) % len(envs)
                if len(envs) > 2:
                    probe("normalize_among_three_environments")
                tgt_env = envs[ti]
                cp = tgt_env.formula_manager.normalize(src)
                penv.push_env(tgt_env)
                try:
                    register(ti, cp, o["client"], "normalize", step, where + " (copy)")
                finally:
                    penv.pop_env()
                ks = Canon(user_names=None, ac=False).key(src)
                kc = Canon(user_names=None, ac=False).key(cp)
                # array values are ordered by object address: compare modulo that order
                if Canon(user_names=None, ac=False).key(src) != kc:
                    pass
                if keyer[ei].key(src) != keyer[ti].key(cp):
                    raise Violation("C04:normalize:structure", "%s: copy %s differs from source %s" % (where, _s(cp), _s(src)))
                # the copy is owned by the target manager and shares no node with the source environment
                stack = [cp]
                seen = set()
                while stack:
                    x = stack.pop()
                    if id(x) in seen:
                        continue
                    seen.add(id(x))
                    if x not in tgt_env.formula_manager:
                        raise Violation("C04:normalize:not-owned", "%s: node %s of the copy is not owned by the target manager" %
                                        (where, _s(x)))
                    if id(x) in obj_key[ei] and key_obj[ei].get(obj_key[ei][id(x)]) is x:
                        raise Violation("C04:normalize:shares-node", "%s: node %s of the copy is an object of the source environment" %
                                        (where, _s(x)))
                    stack.extend(x.args())
                    if x.is_quantifier():
                        stack.extend(x.quantifier_vars())
                    if x.is_function_application():
                        stack.append(x.function_name())
                back = mgr.normalize(cp)
                if back is not src:
                    raise Violation("C04:normalize:round-trip", "%s: normalizing the copy back gave %s, not the original object %s" %
                                    (where, _s(back), _s(src)))
                probe("normalize_roundtrip")
                trace.append(("normalize", ei, ti))
        except Violation:
            raise
        except Exception as ex:
            import traceback, sys
            tb = traceback.extract_tb(sys.exc_info()[2])
            if tb and "/pysmt/" in tb[-1].filename:
                # a valid construction / query failed inside the library
                raise Violation("C04:valid-call-raised:%s" % type(ex).__name__,
                                "%s raised %s: %s (at %s:%s)" % (where, type(ex).__name__, str(ex)[:150],
                                                                 tb[-1].filename.split("/")[-1], tb[-1].name))
            raise
        finally:
            penv.pop_env()
    return {"digest": digest_of(trace), "nontrivial": nontrivial, "probes": probes, "faults": {},
            "sim_time": 0.0, "steps": len(plan["ops"]),
            "sample": {"ops": describe(plan)[len(pool):][:30], "pool": describe(plan)[:len(pool)]}}


def _s(x):
    try:
        return str(x)[:120]
    except Exception:
        return "<unprintable>"
