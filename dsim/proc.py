"""Simulated subprocess: SimPopen with raw byte pipes (short reads, EOF, EIO),
SimTime.  The code under test keeps its real io.TextIOWrapper / readline /
read(1) / flush / close on top of real io.BufferedReader/Writer objects whose
raw layer is simulated here.

The child "binary" is a RefSolver run synchronously inside the pipe object:
bytes written to stdin are interpreted at once; each reply becomes readable at
a virtual time chosen by the member's profile, so waiting for a slow solver is
a (virtual) sleep of the reading task, and a read with nothing ever coming is
a deadlock detected by the kernel.
"""
import errno
import io

from dsim.refsolver import RefSolver

PIPE = -1
PIPE_BUF = 256      # scaled-down POSIX PIPE_BUF (4096) so that long asserts exercise short writes


class World(object):
    """everything one simulated run shares: kernel, tape, solver profiles, logs"""

    def __init__(self, kernel, tape):
        self.kernel = kernel
        self.tape = tape
        self.profiles = {}       # profile name -> dict
        self.procs = []          # every SimPopen created, in order
        self.fault_counts = {}
        self.profile_fn = None     # optional: (key, owner task) -> (profile, member index, solve number)
        self.io = {"short_reads": 0, "reads": 0, "writes": 0, "short_writes": 0}

    def fire(self, kind):
        self.fault_counts[kind] = self.fault_counts.get(kind, 0) + 1

    def popen_factory(self):
        world = self

        def Popen(args, stdin=None, stdout=None, stderr=None, bufsize=-1, **kw):
            return SimPopen(world, args)
        return Popen


class SimTime(object):
    def __init__(self, world):
        self.world = world

    def sleep(self, dt):
        k = self.world.kernel
        if k.is_dead():
            return
        k.sleep(dt)

    def time(self):
        return self.world.kernel.now

    monotonic = time


class _RawIn(io.RawIOBase):
    """the child's stdin as seen by the parent (write side)"""

    def __init__(self, proc):
        io.RawIOBase.__init__(self)
        self.proc = proc

    def writable(self):
        return True

    def write(self, b):
        p = self.proc
        k = p.world.kernel
        data = bytes(b)
        if k.is_dead() or k.me_task() is not p.owner:
            # dead task, finished run, or a finaliser running in some other task's
            # thread: never a simulated side effect (and never a tape draw)
            return len(data)
        if not data:
            return 0
        k.yield_point("stdin.write")
        if p.solver.exited and not p.terminated and not p.solver.dead:
            # the child left through its own (exit): it closes stdin asynchronously;
            # a small trailing write (the newline after "(exit)") lands in the pipe
            # buffer and is never read.  Modelled as accepted-and-discarded.
            return len(data)
        if p.solver_dead():
            raise BrokenPipeError(errno.EPIPE, "Broken pipe")
        pf = p.profile
        n = len(data)
        # writes up to PIPE_BUF are atomic on a pipe: only larger ones can be short
        if pf.get("short_writes") and n > PIPE_BUF and p.world.tape.chance(1, 2, "io.shortwrite"):
            n = 1 + p.world.tape.draw(n - 1, "io.shortwrite.n")
            p.world.io["short_writes"] += 1
        p.world.io["writes"] += 1
        p.feed(data[:n])
        return n


class _RawOut(io.RawIOBase):
    """the child's stdout as seen by the parent (read side)"""

    def __init__(self, proc):
        io.RawIOBase.__init__(self)
        self.proc = proc

    def readable(self):
        return True

    def readinto(self, b):
        p = self.proc
        k = p.world.kernel
        if k.is_dead() or k.me_task() is not p.owner:
            return 0
        if p.eio_at_read is not None and p.n_reads + 1 == p.eio_at_read:
            p.n_reads += 1
            p.world.fire("eio")
            raise OSError(errno.EIO, "Input/output error")
        # wait until something is readable, or EOF
        ok = k.block_until(lambda: bool(p.out) or p.solver_dead(), "stdout of %s" % p.name)
        if not p.out:
            return 0            # EOF: the child is gone
        avail, chunk = p.out[0]
        if avail > k.now:
            k.sleep_until(avail)
            if k.is_dead():
                return 0
        p.n_reads += 1
        p.world.io["reads"] += 1
        n = min(len(b), len(chunk))
        if p.profile.get("short_reads") and n > 1:
            m = 1 + p.world.tape.draw(n, "io.shortread")   # 1..n
            if m < n:
                p.world.io["short_reads"] += 1
                if p.mid_reply:
                    p.world.io["short_read_inside_reply"] = p.world.io.get("short_read_inside_reply", 0) + 1
            n = min(n, m)
        b[:n] = chunk[:n]
        if n == len(chunk):
            p.out.pop(0)
            p.mid_reply = False
        else:
            p.out[0] = (avail, chunk[n:])
            p.mid_reply = True
        return n


class SimPopen(object):
    def __init__(self, world, args):
        self.world = world
        self.args = list(args)
        self.name = "%s#%d" % (self.args[0], len(world.procs))
        key = self.args[1] if len(self.args) > 1 else self.args[0]
        self.key = key
        prof = world.profiles.get(key, {})
        self.member_idx = None
        self.solve_no = None
        if getattr(world, "profile_fn", None) is not None:
            got = world.profile_fn(key, world.kernel.me_task())
            if got is not None:
                prof, self.member_idx, self.solve_no = got
        if isinstance(prof, list):
            # one profile per incarnation: the k-th process started for this member
            nth = sum(1 for p in world.procs if p.key == key)
            prof = prof[min(nth, len(prof) - 1)] if prof else {}
        self.profile = dict(prof)
        self.incarnation = sum(1 for p in world.procs if p.key == key)
        self.owner = world.kernel.me_task()
        self.solver = RefSolver(tape=world.tape, profile=self.profile)
        self.out = []            # [(available_at, bytes)]
        self.mid_reply = False
        self.n_reads = 0
        self.eio_at_read = self.profile.get("eio_at_read")
        self.terminated = False
        self.returncode = None
        self.unread_after = []   # diagnostics
        world.procs.append(self)
        if self.profile.get("die_at_start"):
            self.solver.dead = True
            world.fire("die_at_start")
        self.stdin = io.BufferedWriter(_RawIn(self))
        self.stdout = io.BufferedReader(_RawOut(self))
        self.stderr = io.BytesIO()

    # ---- child side
    def solver_dead(self):
        return self.solver.dead or self.solver.exited or self.terminated

    def feed(self, data):
        k = self.world.kernel
        s = self.solver
        before = len(s.log)
        replies = s.feed(data.decode("utf-8", "replace"))
        pf = self.profile
        t = k.now
        new_cmds = s.log[before:]
        i = 0
        for r in replies:
            # the reply's latency depends on the command that caused it
            delay = pf.get("latency", 0.0)
            # find the command this reply belongs to (replies are in command order)
            while i < len(new_cmds) and new_cmds[i]["reply"] is None:
                i += 1
            name = new_cmds[i]["name"] if i < len(new_cmds) else None
            i += 1
            if name == "check-sat":
                d = pf.get("check_delays")
                if d:
                    delay += d[min(s.n_checks, len(d)) - 1]
                else:
                    delay += pf.get("check_delay", 0.0)
            if name == "get-value" and pf.get("value_delay"):
                # a solver that is slow in producing (its first) values
                if s.counts.get("get-value", 0) <= 1:
                    delay += pf["value_delay"]
                    self.world.fire("slow_value")
            if delay == float("inf"):
                self.world.fire("stall")
                continue     # never answers
            t = max(t, k.now + delay)
            self.out.append((t, r.encode("utf-8")))
        if s.dead:
            pass

    # ---- parent side
    def poll(self):
        return self.returncode

    def wait(self, timeout=None):
        """blocks until the process has ended: it was terminated, it died, or it obeyed (exit) -
        unless its profile says it is stuck and never leaves by itself"""
        k = self.world.kernel
        if k.is_dead():
            return self.returncode

        def ended():
            if self.returncode is not None or self.solver.dead:
                return True
            return self.solver.exited and not self.profile.get("stuck_at_exit")
        k.block_until(ended, "proc.wait", timeout)
        if self.returncode is None and ended():
            self.returncode = 0 if self.solver.exited else 1
        return self.returncode

    def terminate(self):
        self.terminated = True
        self.returncode = -15

    kill = terminate

    def unread_bytes(self):
        return b"".join(c for _, c in self.out)


class Seams(object):
    """rebinds pysmt.smtlib.solver.{Popen,time}; restores them on exit"""

    def __init__(self, world):
        self.world = world

    def __enter__(self):
        import pysmt.smtlib.solver as sm
        self.sm = sm
        self.saved = (sm.Popen, sm.time)
        sm.Popen = self.world.popen_factory()
        sm.time = SimTime(self.world)
        return self

    def __exit__(self, *a):
        self.sm.Popen, self.sm.time = self.saved
        return False
