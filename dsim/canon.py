"""AC-canonical structural key of an FNode, and canonicalisation of arbitrary
API results, so that results obtained in two different environments (or in
one environment with a different history) can be compared "up to the order of
commutative arguments and the names of fresh symbols" - the equality that the
statements of C14 / C15 allow.

The key is a hash (blake2b-64) computed bottom-up over the DAG with an
iterative walk, so it is linear in the DAG size.
"""
import hashlib
from fractions import Fraction

import pysmt.operators as op

COMMUTATIVE = frozenset([op.AND, op.OR, op.IFF, op.EQUALS, op.PLUS, op.TIMES, op.BV_AND, op.BV_OR,
                         op.BV_XOR, op.BV_ADD, op.BV_MUL, op.BV_COMP])


def _h(*parts):
    return hashlib.blake2b(repr(parts).encode(), digest_size=8).hexdigest()


def tkey(t):
    """string key of a pySMT type that tells a user sort from a built-in sort of the same name"""
    try:
        if t.is_function_type():
            return "(%s)->%s" % (",".join(tkey(a) for a in t.param_types), tkey(t.return_type))
        if t.is_array_type():
            return "Array{%s,%s}" % (tkey(t.index_type), tkey(t.elem_type))
        if t.is_custom_type():
            return "user:%s/%d(%s)" % (t.basename, t.arity, ",".join(tkey(a) for a in (t.args or ())))
    except AttributeError:
        pass
    return str(t)


class Canon(object):
    def __init__(self, user_names=None, ac=True):
        """user_names: set of symbol names that are NOT fresh; every other symbol is
        abstracted to FRESH:<type>.  None = no abstraction."""
        self.user_names = user_names
        self.ac = ac
        self.memo = {}
        self.arr = {}       # node -> (base key, {index key: value key}) for constant-indexed array terms

    def _sym(self, f):
        name = f.symbol_name()
        if self.user_names is not None and name not in self.user_names:
            name = "FRESH"
        return _h("sym", name, tkey(f.symbol_type()))

    def key(self, formula):
        memo = self.memo
        if formula in memo:
            return memo[formula]
        stack = [(formula, False)]
        while stack:
            f, expanded = stack.pop()
            if f in memo:
                continue
            nt = f.node_type()
            extra = []
            if nt in (op.FORALL, op.EXISTS):
                extra = list(f.quantifier_vars())
            elif nt == op.FUNCTION:
                extra = [f.function_name()]
            if not expanded:
                stack.append((f, True))
                for x in list(f.args()) + extra:
                    if x not in memo:
                        stack.append((x, False))
                continue
            ks = [memo[x] for x in f.args()]
            if nt == op.SYMBOL:
                memo[f] = self._sym(f)
                continue
            if nt in op.CONSTANTS:
                v = f.constant_value()
                if nt == op.BV_CONSTANT:
                    memo[f] = _h("bv", int(v), f.bv_width())
                elif nt == op.REAL_CONSTANT:
                    memo[f] = _h("real", str(Fraction(v)))
                elif nt == op.ALGEBRAIC_CONSTANT:
                    memo[f] = _h("alg", str(v))
                else:
                    memo[f] = _h("const", nt, repr(v))
                continue
            payload = ()
            if nt in (op.FORALL, op.EXISTS):
                payload = tuple(memo[x] for x in f.quantifier_vars())
            elif nt == op.FUNCTION:
                payload = (memo[f.function_name()],)
            elif nt == op.BV_EXTRACT:
                payload = (f.bv_extract_start(), f.bv_extract_end())
            elif nt in (op.BV_ROL, op.BV_ROR):
                payload = (f.bv_rotation_step(),)
            elif nt in (op.BV_ZEXT, op.BV_SEXT):
                payload = (f.bv_extend_step(),)
            elif nt == op.ARRAY_VALUE:
                payload = (tkey(f.array_value_index_type()),)
                pairs = sorted(zip(ks[1::2], ks[2::2]))
                if self.ac:
                    # a constant array with assignments and the chain of stores pySMT prints (and
                    # reads back) for it are the same array: key = constant base + unordered,
                    # default-free assignment map
                    base = _h("constarray", payload, ks[0])
                    amap = dict((k_, v_) for k_, v_ in pairs if v_ != ks[0])
                    self.arr[f] = (base, amap, ks[0])
                    memo[f] = _h("arr", base, tuple(sorted(amap.items())))
                    continue
                ks = [ks[0]] + [x for p in pairs for x in p]
            elif nt >= op.ALL_TYPES[-1] + 1:
                payload = ("custom",)
            elif nt == op.ARRAY_STORE and self.ac and f.arg(1).is_constant() and f.arg(0) in self.arr:
                base, amap, dflt = self.arr[f.arg(0)]
                amap = dict(amap)
                if memo[f.arg(2)] == dflt:
                    amap.pop(memo[f.arg(1)], None)
                else:
                    amap[memo[f.arg(1)]] = memo[f.arg(2)]
                self.arr[f] = (base, amap, dflt)
                memo[f] = _h("arr", base, tuple(sorted(amap.items())))
                continue
            elif nt == op.ARRAY_STORE:
                # a chain of stores at pairwise distinct constant indices is an unordered
                # set of assignments (pySMT prints constant-array values as such chains in
                # an address-dependent order)
                pairs = []
                base = f
                ok = True
                seen = set()
                while base.node_type() == op.ARRAY_STORE:
                    idx = base.arg(1)
                    if not idx.is_constant() or idx in seen:
                        ok = False
                        break
                    seen.add(idx)
                    pairs.append((memo[idx], memo[base.arg(2)]))
                    base = base.arg(0)
                if ok and len(pairs) > 1:
                    memo[f] = _h("stores", memo[base], tuple(sorted(pairs)))
                    continue
            if self.ac and nt in COMMUTATIVE:
                ks = sorted(ks)
            memo[f] = _h(nt, payload, tuple(ks))
        return memo[formula]

    def result(self, x):
        """canonical, comparable, JSON-friendly form of an API result"""
        from pysmt.fnode import FNode
        from pysmt.typing import PySMTType
        if isinstance(x, FNode):
            return "F:" + self.key(x)
        if isinstance(x, (set, frozenset)):
            return ["set"] + sorted((self.result(y) for y in x), key=repr)
        if isinstance(x, dict):
            return ["dict"] + sorted(([self.result(k), self.result(v)] for k, v in x.items()), key=repr)
        if isinstance(x, (list, tuple)):
            return ["seq"] + [self.result(y) for y in x]
        if isinstance(x, PySMTType):
            return "T:" + tkey(x)
        if isinstance(x, (bool, int, str)) or x is None:
            return x
        if isinstance(x, Fraction):
            return "Q:" + str(x)
        return "O:" + type(x).__name__ + ":" + str(x)
