"""multiprocessing look-alikes on top of the simulation kernel: SimProcess,
SimQueue, SimPipe.  Payloads go through pickle exactly like the real ones, so
objects lose identity across the boundary.

Modelling decisions (see DESIGN.md 2.2/2.3):
* fork semantics for descriptors: a started child inherits every connection
  end its parent holds, so a pipe reports EOF only when *no* live task holds
  the other end;
* Queue.put is asynchronous (feeder thread): the item becomes visible to
  readers after a tape-chosen small virtual delay, is flushed at normal process
  exit and is lost if the process is killed first;
* terminate() is synchronous: the victim never performs another simulated side
  effect;
* NOT modelled: copy-on-write isolation of the children's memory.
"""
import pickle
import queue as _queue


class Net(object):
    """registry shared by the primitives of one run"""

    def __init__(self, kernel, tape):
        self.kernel = kernel
        self.tape = tape
        self.conns = []
        self.queues = []
        self.procs = []
        self.stats = {"q_put": 0, "q_lost": 0, "q_delayed": 0, "pipe_send": 0, "started": 0,
                      "terminated": 0, "pickled_exceptions": 0}

    def factories(self):
        net = self

        def Process(group=None, target=None, name=None, args=(), kwargs=None, daemon=None):
            return SimProcess(net, name, target, args, kwargs or {})

        def Queue(maxsize=0):
            return SimQueue(net)

        def Pipe(duplex=True):
            a, b = SimConn(net), SimConn(net)
            a.peer, b.peer = b, a
            me = net.kernel.me()
            a.holders.add(me)
            b.holders.add(me)
            net.conns += [a, b]
            return a, b
        return Process, Queue, Pipe


class SimQueue(object):
    def __init__(self, net):
        self.net = net
        self.items = []      # [visible_at_time, bytes, owner task, lost, flushed]
        net.queues.append(self)

    def _visible(self):
        now = self.net.kernel.now
        for it in self.items:
            if not it[3] and (it[4] or it[0] <= now):
                return it
        return None

    def put(self, obj, block=True, timeout=None):
        k = self.net.kernel
        if k.is_dead():
            return
        data = pickle.dumps(obj)
        if isinstance(obj, tuple) and any(isinstance(x, BaseException) for x in obj):
            self.net.stats["pickled_exceptions"] += 1
        k.yield_point("queue.put")
        me = k.me()
        d = self.net.tape.draw(3, "queue.feeder_delay")
        at = k.now + d * 1e-5
        entry = [at, data, me, False, False]
        self.items.append(entry)
        self.net.stats["q_put"] += 1
        if d:
            self.net.stats["q_delayed"] += 1
            k.add_timer(at)
        if not getattr(me, "_q_hooked", False) and not me.is_main:
            me._q_hooked = True

            def on_exit(task, normal, net=self.net):
                for q in net.queues:
                    for it in q.items:
                        if it[2] is task:
                            if normal:
                                it[4] = True
                            elif not (it[0] <= net.kernel.now):
                                it[3] = True
                                net.stats["q_lost"] += 1
            me.on_exit.append(on_exit)
        k.yield_point("queue.put.done")

    def get(self, block=True, timeout=None):
        k = self.net.kernel
        if k.is_dead():
            raise _queue.Empty()
        if not block:
            k.yield_point("queue.get_nowait")
            it = self._visible()
            if it is None:
                raise _queue.Empty()
        else:
            ok = k.block_until(lambda: self._visible() is not None, "queue.get", timeout)
            if not ok:
                raise _queue.Empty()
            it = self._visible()
        self.items.remove(it)
        return pickle.loads(it[1])

    def get_nowait(self):
        return self.get(block=False)

    def empty(self):
        return self._visible() is None

    def close(self):
        pass

    def join_thread(self):
        pass

    def cancel_join_thread(self):
        pass


class SimConn(object):
    def __init__(self, net):
        self.net = net
        self.inbox = []
        self.peer = None
        self.holders = set()
        self.closed_by = set()

    def _peer_open(self):
        return any(t.alive() or t.is_main for t in self.peer.holders)

    def send(self, obj):
        k = self.net.kernel
        if k.is_dead():
            return
        data = pickle.dumps(obj)
        k.yield_point("pipe.send")
        if not self._peer_open():
            raise BrokenPipeError(32, "Broken pipe")
        self.peer.inbox.append(data)
        self.net.stats["pipe_send"] += 1
        k.yield_point("pipe.send.done")

    def recv(self):
        k = self.net.kernel
        if k.is_dead():
            raise EOFError()
        k.block_until(lambda: bool(self.inbox) or not self._peer_open(), "pipe.recv")
        if self.inbox:
            return pickle.loads(self.inbox.pop(0))
        raise EOFError()

    def poll(self, timeout=0.0):
        k = self.net.kernel
        if k.is_dead():
            return False
        if timeout is None:
            return k.block_until(lambda: bool(self.inbox), "pipe.poll")
        return k.block_until(lambda: bool(self.inbox), "pipe.poll", timeout)

    def close(self):
        me = self.net.kernel.me()
        self.holders.discard(me)

    def fileno(self):
        return id(self) & 0xFFFF


class SimProcess(object):
    _pid = [1000]

    def __init__(self, net, name, target, args, kwargs):
        self.net = net
        self.name = name
        self._target = target
        self._args = tuple(args)
        self._kwargs = dict(kwargs)
        self.task = None
        SimProcess._pid[0] += 1
        self.pid = None
        self.daemon = False
        net.procs.append(self)

    def start(self):
        k = self.net.kernel
        if k.is_dead():
            return
        assert self.task is None, "cannot start a process twice"
        parent = k.me()

        def body():
            self._target(*self._args, **self._kwargs)
        self.task = k.spawn(self.name, body)
        self.pid = len(self.net.procs) + 1000
        # fork: the child inherits every descriptor its parent holds
        for c in self.net.conns:
            if parent in c.holders:
                c.holders.add(self.task)

        def on_exit(task, normal, net=self.net):
            for c in net.conns:
                c.holders.discard(task)
        self.task.on_exit.append(on_exit)
        self.net.stats["started"] += 1
        k.yield_point("process.start")

    def terminate(self):
        k = self.net.kernel
        if k.is_dead() or self.task is None:
            return
        if self.task.alive():
            self.net.stats["terminated"] += 1
        k.kill(self.task)
        k.yield_point("process.terminate")

    kill = terminate

    def is_alive(self):
        k = self.net.kernel
        if k.is_dead():
            return False
        k.yield_point("process.is_alive")
        return self.task is not None and self.task.alive()

    def join(self, timeout=None):
        k = self.net.kernel
        if k.is_dead() or self.task is None:
            return
        k.block_until(lambda: not self.task.alive(), "process.join", timeout)

    @property
    def exitcode(self):
        if self.task is None or self.task.alive():
            return None
        return self.task.exitcode


class Seams(object):
    """rebinds pysmt.solvers.portfolio.{Process,Queue,Pipe}"""

    def __init__(self, net):
        self.net = net

    def __enter__(self):
        import pysmt.solvers.portfolio as pf
        self.pf = pf
        self.saved = (pf.Process, pf.Queue, pf.Pipe)
        pf.Process, pf.Queue, pf.Pipe = self.net.factories()
        return self

    def __exit__(self, *a):
        self.pf.Process, self.pf.Queue, self.pf.Pipe = self.saved
        return False
