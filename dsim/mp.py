"""multiprocessing look-alikes on top of the simulation kernel: SimProcess,
SimQueue, SimPipe.  Payloads go through pickle exactly like the real ones, so
objects lose identity across the boundary.

Modelling decisions (see DESIGN.md 2.2/2.3):
* fork semantics for descriptors: a started child inherits every connection
  end its parent holds, so a pipe reports EOF only when *no* live task holds
  the other end;
* Queue.put is asynchronous (feeder thread): the item becomes visible to
  readers after a tape-chosen small virtual delay, is flushed at normal process
  exit and is lost if the process is killed first;
* terminate() is synchronous: the victim never performs another simulated side
  effect;
* descriptors are a finite resource (optional, Net.fd_limit): every open connection handle, every
  queue (2) and every started Process object that is still referenced (its sentinel) counts
  against the limit of the process that owns it; creating one more beyond the limit raises
  OSError(EMFILE) - after a garbage collection, as the real collector would have run by then;
* NOT modelled: copy-on-write isolation of the children's memory.
"""
import gc
import pickle
import weakref
import queue as _queue


PIPE_CAPACITY = 64      # messages a pipe direction holds before send() blocks


class _WeakList(object):
    """list of weak references (handles must stay collectable)"""

    def __init__(self):
        self._refs = []

    def append(self, obj):
        self._refs.append(weakref.ref(obj))

    def __iter__(self):
        for r in list(self._refs):
            o = r()
            if o is not None:
                yield o


class Net(object):
    """registry shared by the primitives of one run"""

    def __init__(self, kernel, tape):
        self.kernel = kernel
        self.tape = tape
        self.conns = _WeakList()
        self.queues = _WeakList()           # queue cores (alive while some handle is)
        self.queue_handles = _WeakList()    # per-process handles on them (descriptor accounting)
        self.procs = []             # one record per Process object ever created (creation order)
        self.proc_objs = _WeakList()
        self.fd_limit = None        # descriptors one process may hold (None: unlimited)
        self.fd_peak = 0
        self.stats = {"q_put": 0, "q_lost": 0, "q_delayed": 0, "pipe_send": 0, "started": 0,
                      "terminated": 0, "pickled_exceptions": 0, "slow_starts": 0}
        self.slow_start = False     # fault: fork/exec of a child may take (virtual) time in the parent

    def fds_of(self, task):
        n = sum(1 for c in self.conns if c.open and c.owner is task)
        n += 2 * sum(1 for q in self.queue_handles if q.owner is task and q.open)
        n += sum(1 for p in self.proc_objs if p.parent is task and p.task is not None and not p.closed)
        return n

    def need_fds(self, n):
        """called before descriptors are created in the current task"""
        me = self.kernel.me()
        have = self.fds_of(me)
        if self.fd_limit is not None and have + n > self.fd_limit:
            gc.collect()        # whatever only the collector can free is freed by now in a real process
            have = self.fds_of(me)
            if have + n > self.fd_limit:
                self.stats["emfile"] = self.stats.get("emfile", 0) + 1
                raise OSError(24, "Too many open files")
        self.fd_peak = max(self.fd_peak, have + n)

    def factories(self):
        net = self

        def Process(group=None, target=None, name=None, args=(), kwargs=None, daemon=None):
            return SimProcess(net, name, target, args, kwargs or {})

        def Queue(maxsize=0):
            return SimQueue(net)

        def Pipe(duplex=True):
            net.need_fds(2)
            ca, cb = _Chan(), _Chan()
            me = net.kernel.me()
            a = SimConn(net, ca, cb, me)
            b = SimConn(net, cb, ca, me)
            return a, b
        return Process, Queue, Pipe


class SimQueue(object):
    """a process's handle on a queue (the parent's is created by Queue(); a started child gets its
    own duplicate, like the connection handles): the descriptors of the underlying pipe are held by
    a process for as long as ITS handle object is referenced"""

    def __init__(self, net, core=None, owner=None):
        self.net = net
        if core is None:
            net.need_fds(2)
            core = _QueueCore(net)
        self.core = core
        self.owner = owner if owner is not None else net.kernel.me()
        self.open = True
        net.queue_handles.append(self)

    def _dup(self, owner):
        return SimQueue(self.net, self.core, owner)

    def put(self, obj, block=True, timeout=None):
        return self.core.put(obj, block, timeout)

    def get(self, block=True, timeout=None):
        return self.core.get(block, timeout)

    def get_nowait(self):
        return self.core.get(block=False)

    def empty(self):
        return self.core.empty()

    def close(self):
        self.open = False

    def join_thread(self):
        pass

    def cancel_join_thread(self):
        pass


class _QueueCore(object):
    def __init__(self, net):
        self.net = net
        self.items = []      # [visible_at_time, bytes, owner task, lost, flushed]
        net.queues.append(self)

    def _visible(self):
        now = self.net.kernel.now
        for it in self.items:
            if not it[3] and (it[4] or it[0] <= now):
                return it
        return None

    def put(self, obj, block=True, timeout=None):
        k = self.net.kernel
        if k.is_dead():
            return
        data = pickle.dumps(obj)
        if isinstance(obj, tuple) and any(isinstance(x, BaseException) for x in obj):
            self.net.stats["pickled_exceptions"] += 1
        k.yield_point("queue.put")
        me = k.me()
        d = self.net.tape.draw(3, "queue.feeder_delay")
        at = k.now + d * 1e-5
        entry = [at, data, me, False, False]
        self.items.append(entry)
        self.net.stats["q_put"] += 1
        if d:
            self.net.stats["q_delayed"] += 1
            k.add_timer(at)
        if not getattr(me, "_q_hooked", False) and not me.is_main:
            me._q_hooked = True

            def on_exit(task, normal, net=self.net):
                for q in net.queues:
                    for it in q.items:
                        if it[2] is task:
                            if normal:
                                it[4] = True
                            elif not (it[0] <= net.kernel.now):
                                it[3] = True
                                net.stats["q_lost"] += 1
            me.on_exit.append(on_exit)
        k.yield_point("queue.put.done")

    def get(self, block=True, timeout=None):
        k = self.net.kernel
        if k.is_dead():
            raise _queue.Empty()
        if not block:
            k.yield_point("queue.get_nowait")
            it = self._visible()
            if it is None:
                raise _queue.Empty()
        else:
            ok = k.block_until(lambda: self._visible() is not None, "queue.get", timeout)
            if not ok:
                raise _queue.Empty()
            it = self._visible()
        self.items.remove(it)
        return pickle.loads(it[1])

    def get_nowait(self):
        return self.get(block=False)

    def empty(self):
        return self._visible() is None

    def close(self):
        pass

    def join_thread(self):
        pass

    def cancel_join_thread(self):
        pass


class _Chan(object):
    """one direction of a pipe: a FIFO of pickled messages and the set of open handles that can write to it"""

    def __init__(self):
        self.inbox = []
        self.writers = weakref.WeakSet()


class SimConn(object):
    """a *handle* (descriptor) on one end of a duplex pipe, owned by one task.

    fork semantics: Process.start() gives the child its own duplicate of every handle its parent
    holds (and the handles in its arguments are replaced by the child's duplicates); a handle is
    closed when its owner exits or is killed, when close() is called, or - like a real
    Connection - when the handle object itself is garbage collected (a local variable of the
    parent going out of scope).  recv() reports EOF once no open handle can write to this end."""

    def __init__(self, net, rchan, wchan, owner):
        self.net = net
        self.rchan = rchan          # messages for this end
        self.wchan = wchan          # where send() puts messages
        self.owner = owner
        self.open = True
        wchan.writers.add(self)
        net.conns.append(self)

    def _dup(self, owner):
        return SimConn(self.net, self.rchan, self.wchan, owner)

    def _can_be_written(self):
        return any(h.open and h.owner is not None and (h.owner.alive() or h.owner.is_main)
                   for h in self.rchan.writers)

    def _peer_reading(self):
        return any(h.open and h.rchan is self.wchan and (h.owner.alive() or h.owner.is_main)
                   for h in self.net.conns)

    def send(self, obj):
        k = self.net.kernel
        if k.is_dead():
            return
        data = pickle.dumps(obj)
        k.yield_point("pipe.send")
        if not self._peer_reading():
            raise BrokenPipeError(32, "Broken pipe")
        if len(self.wchan.inbox) >= PIPE_CAPACITY:
            # the kernel buffer is full: send() blocks until the peer reads (or is gone)
            self.net.stats["pipe_full"] = self.net.stats.get("pipe_full", 0) + 1
            k.block_until(lambda: len(self.wchan.inbox) < PIPE_CAPACITY or not self._peer_reading(), "pipe.send(full)")
            if not self._peer_reading():
                raise BrokenPipeError(32, "Broken pipe")
        self.wchan.inbox.append(data)
        self.net.stats["pipe_send"] += 1
        k.yield_point("pipe.send.done")

    def recv(self):
        k = self.net.kernel
        if k.is_dead():
            raise EOFError()
        k.block_until(lambda: bool(self.rchan.inbox) or not self._can_be_written(), "pipe.recv")
        if self.rchan.inbox:
            return pickle.loads(self.rchan.inbox.pop(0))
        raise EOFError()

    def poll(self, timeout=0.0):
        k = self.net.kernel
        if k.is_dead():
            return False
        if timeout is None:
            return k.block_until(lambda: bool(self.rchan.inbox), "pipe.poll")
        return k.block_until(lambda: bool(self.rchan.inbox), "pipe.poll", timeout)

    def close(self):
        self.open = False
        self.wchan.writers.discard(self)

    def __del__(self):
        # a Connection whose last reference disappears is closed (no scheduling, no tape draw)
        try:
            self.open = False
            self.wchan.writers.discard(self)
        except Exception:
            pass

    def fileno(self):
        return id(self) & 0xFFFF


class _ProcRec(object):
    """what stays of a Process object for the harness (which member it was), without keeping it alive"""
    __slots__ = ("name", "task")

    def __init__(self, name):
        self.name = name
        self.task = None


class SimProcess(object):
    _pid = [1000]

    def __init__(self, net, name, target, args, kwargs):
        self.net = net
        self.name = name
        self._target = target
        self._args = tuple(args)
        self._kwargs = dict(kwargs)
        self.task = None
        self.parent = None
        self.closed = False
        SimProcess._pid[0] += 1
        self.pid = None
        self.daemon = False
        self.rec = _ProcRec(name)
        net.procs.append(self.rec)
        net.proc_objs.append(self)

    def start(self):
        k = self.net.kernel
        if k.is_dead():
            return
        assert self.task is None, "cannot start a process twice"
        parent = k.me()
        self.net.need_fds(1)        # the sentinel, held as long as this object is
        self.parent = parent
        box = {}

        def body(box=box):
            # (no reference to the Process object: the parent may drop it while the child runs)
            handles = box.pop("handles")                    # keeps the inherited descriptors open
            target, args, kwargs = box.pop("call")
            target(*args, **kwargs)
            del handles
        self.task = k.spawn(self.name, body)
        self.rec.task = self.task
        self.pid = len(self.net.procs) + 1000
        # fork: the child gets its own duplicate of every descriptor its parent holds ...
        dups = {}
        for c in list(self.net.conns):
            if c.open and c.owner is parent:
                dups[id(c)] = c._dup(self.task)
        # ... and the handles among its arguments are the child's duplicates
        args = tuple(dups.get(id(a), a) if isinstance(a, SimConn) else
                     (a._dup(self.task) if isinstance(a, SimQueue) else a) for a in self._args)
        box["handles"] = list(dups.values())
        box["call"] = (self._target, args, self._kwargs)
        # like multiprocessing.Process.start(): do not keep the arguments alive in the parent
        del self._target, self._args, self._kwargs

        def on_exit(task, normal, net=self.net):
            for c in list(net.conns):
                if c.owner is task:
                    c.close()
        self.task.on_exit.append(on_exit)
        self.net.stats["started"] += 1
        if self.net.slow_start and self.net.tape.chance(1, 2, "start.slow"):
            # a loaded machine / a large parent: start() returns late, the children already run
            self.net.stats["slow_starts"] += 1
            k.sleep(self.net.tape.rint(1, 40, "start.delay") * 0.05)
        else:
            k.yield_point("process.start")

    def terminate(self):
        k = self.net.kernel
        if k.is_dead() or self.task is None:
            return
        if self.task.alive():
            self.net.stats["terminated"] += 1
        k.kill(self.task)
        k.yield_point("process.terminate")

    kill = terminate

    def is_alive(self):
        k = self.net.kernel
        if k.is_dead():
            return False
        k.yield_point("process.is_alive")
        return self.task is not None and self.task.alive()

    def join(self, timeout=None):
        k = self.net.kernel
        if k.is_dead() or self.task is None:
            return
        k.block_until(lambda: not self.task.alive(), "process.join", timeout)

    def close(self):
        self.closed = True

    @property
    def exitcode(self):
        if self.task is None or self.task.alive():
            return None
        return self.task.exitcode


class Seams(object):
    """rebinds pysmt.solvers.portfolio.{Process,Queue,Pipe}"""

    def __init__(self, net):
        self.net = net

    def __enter__(self):
        import pysmt.solvers.portfolio as pf
        self.pf = pf
        self.saved = (pf.Process, pf.Queue, pf.Pipe)
        pf.Process, pf.Queue, pf.Pipe = self.net.factories()
        return self

    def __exit__(self, *a):
        self.pf.Process, self.pf.Queue, self.pf.Pipe = self.saved
        return False
