"""Catalogue of public-API calls on an Environment, parameterised by blueprints,
shared by the environment-history checks (C14, C15).

A call spec is a JSON dict {"call": name, "f": blueprint, ...}.  perform() runs
it on the environment that is currently the global one (pysmt's FNode helper
methods use the global environment) and returns the raw result; outcome()
wraps it into a canonical, comparable value:
     ("ok", canonical_result)  |  ("exc", exception class name)
"""
from io import StringIO

from dsim import bp
from dsim.canon import Canon

SIZE_MEASURES = 6

# calls that need nothing but the formula itself (can be applied to a derived formula)
DERIVABLE = ("simplify", "free_vars", "atoms", "is_qf", "theory", "logic", "types", "size", "serialize",
             "nnf", "cnf", "prenex", "aig", "get_type")

# calls whose result may contain freshly named symbols
FRESH_CALLS = ("cnf", "prenex", "fresh", "ackermann")
# calls that return a formula and must return the very same object when repeated
IDEMPOTENT_OBJECT_CALLS = ("build", "simplify", "substitute", "nnf", "aig", "normalize_self", "qelim_shannon",
                           "qelim_selfsub")


def gen_call(tape, pool_size, term_of, ctx_symbols, richgen, ctx, exclude=()):
    """draw one call spec over pool formula indices"""
    from dsim import richgen as rg
    kinds = [(3, "simplify"), (3, "substitute"), (2, "free_vars"), (2, "atoms"), (1, "is_qf"), (2, "theory"),
             (1, "logic"), (1, "types"), (3, "size"), (2, "serialize"), (2, "to_smtlib"), (1, "nnf"),
             (1, "cnf"), (1, "prenex"), (1, "aig"), (1, "get_type"), (2, "build"), (1, "fresh"),
             (1, "model_value"), (1, "parse_smtlib"), (1, "parse_hr"), (1, "qelim")]
    kinds = kinds + [(2, "substitute_shared"), (2, "parse_long"), (2, "foreign"), (1, "script_serialize"),
                     (2, "resimplify"), (2, "model_value_shared"), (1, "factory"), (1, "register_dwf"),
                     (1, "declare_freshlike"), (1, "serialize_custom"), (1, "odd_constant"), (1, "lookalike_array"), (1, "closer_logic"), (2, "rewriter_long"),
                     (1, "build_noncurrent"), (2, "substitute_interp")]
    kinds = [(w, n) for w, n in kinds if n not in exclude]
    k = tape.weighted(kinds, "call.kind")
    i = tape.draw(pool_size, "call.formula")
    spec = {"call": k, "i": i}
    t = term_of(i)
    if k in DERIVABLE and tape.chance(1, 4, "call.derived"):
        # apply the call to the formula returned by the most recent earlier call that
        # returned one (a simplification / substitution / normal form of some pool formula)
        spec["derived"] = True
    if k == "substitute_shared":
        # the client keeps ONE dict object and updates it in place between calls
        syms = [x for x in rg.subterms(t) if x[0] == "sym" and not bp.is_fun(x[2]) and not bp.is_array(x[2])]
        pairs = []
        for _ in range(tape.rint(1, 2, "shared.n")):
            if not syms:
                break
            key = tape.choice(syms, "shared.key")
            try:
                pairs.append([key, rg.gen(tape, key[2], 1, ctx)])
            except ValueError:
                pass
        spec["update"] = pairs
    if k == "register_dwf":
        # the documented extension API: teach one long-lived service of the environment about the
        # custom node type (registrations are history that legitimately counts)
        spec["service"] = tape.choice(sorted(DWF_SERVICES), "dwf.service")
    if k == "declare_freshlike":
        # the user declares (if it does not exist yet) a symbol whose name a fresh-name template
        # could produce later
        spec["name"] = "FV%d" % tape.rint(2, 9, "freshlike.n")
    if k == "closer_logic":
        # the closest supported logic, asked with a temporary collection (a new list object each time)
        spec["supported"] = [tape.choice(CLOSER_LOGICS, "closer.sup") for _ in range(tape.rint(1, 4, "closer.n"))]
        spec["logic"] = tape.choice(CLOSER_LOGICS, "closer.logic")
    if k == "rewriter_long":
        # a client keeps ONE normaliser object and uses it for several formulas
        spec["which"] = tape.choice(["prenex", "nnf"], "rewriter.which")
    if k == "lookalike_array":
        # array types over a user sort that is merely named like a built-in sort, and over that built-in sort
        spec["which"] = tape.choice(["user", "builtin"], "lookalike.which")
        spec["name"] = tape.choice(["Int", "Real", "Bool"], "lookalike.name")
    if k == "odd_constant":
        # a number given in a Python type the constructor does not accept (or does it?): the answer
        # must not depend on whether an equal constant happens to exist already
        spec["ctor"] = tape.choice(["Int", "Int", "Real", "BV"], "oddc.ctor")
        spec["value"] = tape.choice(["True", "False", "1.0", "2.0", "Fraction(2)", "0.0", "(1.0, 2.0)", "(1, 2)", "1", "2"], "oddc.value")
    if k == "serialize_custom":
        spec["printer"] = tape.choice(["custom", "default", "custom"], "hr.printer")
        spec["threshold"] = tape.choice([None, None, 2, 5], "hr.threshold")
    if k == "factory":
        # which solvers the environment's factory offers for a logic, before / after a generic
        # SMT-LIB solver is registered (the registrations are the only history that counts)
        spec["action"] = tape.choice(["query", "query", "add"], "factory.action")
        spec["logic"] = tape.choice(FACTORY_LOGICS, "factory.logic")
        if spec["action"] == "add":
            spec["name"] = "gen%d" % tape.draw(3, "factory.name")
            spec["logics"] = [tape.choice(FACTORY_LOGICS, "factory.logics") for _ in range(tape.rint(1, 2, "factory.nlogics"))]
            spec["cores"] = tape.chance(1, 3, "factory.cores")
    if k == "substitute_shared" and tape.chance(1, 4, "shared.bad"):
        # the client puts an entry into its dict that substitute() must refuse (a value of another
        # environment), makes the call, and takes the entry out again
        spec["bad"] = tape.choice(["foreign_value", "foreign_key"], "shared.bad.kind")
    if k == "foreign":
        # a structural analysis of a formula that belongs to ANOTHER environment, asked through this
        # environment's oracles (what FNode helper methods do when several environments are alive)
        spec["what"] = tape.choice(["size", "free_vars", "atoms", "is_qf", "types", "theory"], "foreign.what")
        spec["measure"] = tape.draw(SIZE_MEASURES, "foreign.measure")
    if k == "script_serialize":
        spec["others"] = [tape.draw(pool_size, "script.other") for _ in range(tape.rint(1, 3, "script.n"))]
        spec["daggify"] = tape.chance(3, 4, "script.daggify")
        spec["named"] = tape.chance(1, 3, "script.named")
    if k == "parse_long":
        # a script (optionally with set-logic) parsed by the client's long-lived SmtLibParser
        spec["logic"] = tape.choice([None, None, "QF_LRA", "QF_LIA", "QF_BV", "QF_UFLIRA", "LRA"], "parse_long.logic")
        spec["numerals"] = tape.chance(1, 2, "parse_long.numerals")
    if k == "substitute_interp":
        # substitution under a supplied interpretation of f / g / P; the same (few) applications are
        # interpreted again and again with tape-chosen bodies and the same or no ordinary substitution
        spec["fun"] = tape.choice(["f", "f", "g", "P"], "interp.fun")
        spec["body"] = tape.draw(4, "interp.body")
        spec["subs"] = tape.draw(3, "interp.subs")
        spec["two"] = tape.chance(1, 3, "interp.two")
    if k == "substitute":
        subs = rg.subterms(t)
        pairs = []
        for _ in range(tape.rint(1, 2, "subst.n")):
            key = tape.choice(subs, "subst.key")
            if key[0] in ("bool", "int", "real", "bv", "str"):
                continue
            srt = bp.sort_of(key)
            if bp.is_fun(srt):
                continue
            if key[0] != "sym" and not tape.chance(1, 3, "subst.subterm?"):
                # prefer symbols as keys
                syms = [x for x in subs if x[0] == "sym" and not bp.is_fun(x[2])]
                if syms:
                    key = tape.choice(syms, "subst.symkey")
                    srt = bp.sort_of(key)
            try:
                val = rg.gen(tape, srt, 1, ctx)
            except ValueError:
                continue
            pairs.append([key, val])
        spec["map"] = pairs
        spec["mss"] = bool(tape.draw(2, "subst.mss"))
    elif k == "size":
        spec["measure"] = tape.draw(SIZE_MEASURES, "size.measure")
        if tape.chance(1, 5, "size.invalid"):
            spec["measure"] = tape.choice([6, 6, 6, 99, -1], "size.badmeasure")
    elif k == "to_smtlib":
        spec["daggify"] = bool(tape.draw(2, "daggify"))
    elif k == "build":
        spec["route"] = tape.choice(["mgr", "mgr", "shortcut"], "build.route")
    elif k == "fresh":
        spec["sort"] = tape.choice([bp.BOOL, bp.INT, bp.REAL, bp.BV(3)], "fresh.sort")
        spec["template"] = tape.choice([None, None, "FV%d", "x%d"], "fresh.template")
    elif k == "qelim":
        spec["algo"] = tape.choice(["shannon", "selfsub"], "qelim.algo")
    return spec


def perform(env, spec, f, term, user_symbols):
    """run the call on FNode f (built from blueprint `term` in env).  env is the global env."""
    import pysmt.rewritings as rw
    import pysmt.oracles as oracles
    mgr = env.formula_manager
    k = spec["call"]
    if k == "build":
        if spec.get("route") == "shortcut":
            import pysmt.shortcuts as sc
            return sc.get_env().formula_manager.normalize(bp.build(term, env))
        return bp.build(term, env)
    if k == "get_type":
        return f.get_type()
    if k == "simplify":
        return f.simplify()
    if k == "resimplify":
        # simplify the simplification: aged environment = after having simplified f itself;
        # reference = the first result re-created in a fresh environment and simplified alone
        r1 = spec.get("_first")
        if r1 is None:
            r1 = f.simplify()
            spec["_first_out"] = r1
        else:
            r1 = env.formula_manager.normalize(r1)
        return r1.simplify()
    if k == "substitute":
        m = {}
        for key, val in spec["map"]:
            m[bp.build(key, env)] = bp.build(val, env)
        if spec.get("mss"):
            from pysmt.substituter import MSSubstituter
            return MSSubstituter(env).substitute(f, m)
        return f.substitute(m)
    if k == "substitute_interp":
        from pysmt.substituter import FunctionInterpretation
        mgr = env.formula_manager
        I, B = bp.to_pysmt_type(bp.INT, env), bp.to_pysmt_type(bp.BOOL, env)
        fsorts = {"f": ["Fun", [bp.INT], bp.INT], "g": ["Fun", [bp.INT, bp.INT], bp.BOOL],
                  "P": ["Fun", [bp.INT, bp.BOOL], bp.BOOL]}
        x, y, pb = mgr.Symbol("x", I), mgr.Symbol("y", I), mgr.Symbol("p", B)
        a, b, c = mgr.Symbol("ia", I), mgr.Symbol("ib", I), mgr.Symbol("ic", B)

        def interp(name, body):
            if name == "f":
                return FunctionInterpretation([a], [mgr.Plus(a, mgr.Int(1)), mgr.Times(a, mgr.Int(2)), mgr.Int(0),
                                                    mgr.Minus(a, mgr.Int(3))][body])
            if name == "g":
                return FunctionInterpretation([a, b], [mgr.LT(a, b), mgr.Equals(a, b), mgr.TRUE(), mgr.LE(b, a)][body])
            return FunctionInterpretation([a, c], [c, mgr.GT(a, mgr.Int(0)), mgr.Not(c), mgr.FALSE()][body])
        syms = dict((n, mgr.Symbol(n, bp.to_pysmt_type(fsorts[n], env))) for n in ("f", "g", "P"))
        apps = mgr.And(mgr.Equals(mgr.Function(syms["f"], [x]), mgr.Function(syms["f"], [mgr.Plus(y, mgr.Int(1))])),
                       mgr.Function(syms["g"], [x, mgr.Function(syms["f"], [y])]),
                       mgr.Function(syms["P"], [x, pb]))
        formula = mgr.And(f, apps) if f.get_type().is_bool_type() else apps
        interps = {syms[spec["fun"]]: interp(spec["fun"], spec["body"])}
        if spec.get("two"):
            other = {"f": "g", "g": "P", "P": "f"}[spec["fun"]]
            interps[syms[other]] = interp(other, (spec["body"] + 1) % 4)
        subs = [{}, {x: mgr.Int(2)}, {y: mgr.Plus(x, mgr.Int(1))}][spec.get("subs", 0)]
        return formula.substitute(subs, interpretations=interps)
    if k == "substitute_shared":
        # spec["_dict"] is supplied by the caller: the client's long-lived dict (aged
        # environment) or a brand-new dict with the same content (reference environment)
        d = spec["_dict"]
        if spec.get("bad") and spec.get("_bad_entry") is not None:
            bk, bv = spec["_bad_entry"]
            saved = d.get(bk, None)
            d[bk] = bv
            try:
                return f.substitute(d)
            finally:
                if saved is None:
                    del d[bk]
                else:
                    d[bk] = saved
        return f.substitute(d)
    if k == "factory":
        return factory_call(env, spec)
    if k == "odd_constant":
        from fractions import Fraction
        v = {"True": True, "False": False, "1.0": 1.0, "2.0": 2.0, "Fraction(2)": Fraction(2), "0.0": 0.0,
             "(1.0, 2.0)": (1.0, 2.0), "(1, 2)": (1, 2), "1": 1, "2": 2}[spec["value"]]
        # (the plain spellings "1", "2", "(1, 2)" are part of the catalogue too: whether an equal
        # constant exists already is history, and must not decide whether an odd spelling is accepted)
        if isinstance(v, tuple):
            c = mgr.Real(v)
            return ["constant", str(c.get_type()), str(c.constant_value()), type(c.constant_value()).__name__]
        if spec["ctor"] == "Real" and not isinstance(v, (bool, int)):
            v = bool(v)         # floats and Fractions are documented spellings of a Real
        if spec["ctor"] == "BV":
            c = mgr.BV(v, 4)
        else:
            c = getattr(mgr, spec["ctor"])(v)
        return ["constant", str(c.get_type()), str(c.constant_value()), type(c.constant_value()).__name__]
    if k == "closer_logic":
        import pysmt.logics as L
        lg = L.get_logic_by_name(spec["logic"])
        out = []
        # two temporary collections of the same size, one after the other (the second one is very
        # likely to be allocated where the first one was)
        for names in (spec["supported"], list(reversed(CLOSER_LOGICS))[:len(spec["supported"])]):
            sup = [L.get_logic_by_name(n) for n in names]
            try:
                res = L.get_closer_logic(sup, lg)
            except L.NoLogicAvailableError:
                out.append("none")
                del sup
                continue
            if res not in sup or not (lg <= res):
                return ("closer-logic-wrong", "get_closer_logic(%s, %s) = %s" % (names, spec["logic"], res))
            out.append(str(res))
            del sup
        return ["closer"] + out
    if k == "rewriter_long":
        obj = spec["_rewriter"]
        return obj.normalize(f) if spec["which"] == "prenex" else obj.convert(f)
    if k == "build_noncurrent":
        # the term built through the manager of an environment that is not the current one
        other = spec["_other_env"]
        g = bp.build(term, other)
        return ["built", g in other.formula_manager]
    if k == "lookalike_array":
        import pysmt.typing as T
        from dsim.canon import tkey
        tm = env.type_manager
        builtin = {"Int": T.INT, "Real": T.REAL, "Bool": T.BOOL}[spec["name"]]
        elem = tm.Type(spec["name"], 0) if spec["which"] == "user" else builtin
        at = tm.ArrayType(T.REAL, elem)
        sym = mgr.Symbol("la_%s_%s" % (spec["which"], spec["name"]), at)
        sel = mgr.Select(sym, mgr.Real(1))
        return ["array-type", tkey(at), tkey(at.elem_type), tkey(env.stc.get_type(sel))]
    if k == "register_dwf":
        return register_dwf(env, spec)
    if k == "declare_freshlike":
        return declare_freshlike(env, spec)
    if k == "serialize_custom":
        pr = _shout_printer() if spec.get("printer") == "custom" else None
        return ("hr-text", env.serializer.serialize(f, printer=pr, threshold=spec.get("threshold")))
    if k == "free_vars":
        return f.get_free_variables()
    if k == "atoms":
        return f.get_atoms()
    if k == "is_qf":
        return env.qfo.is_qf(f)
    if k == "theory":
        th = env.theoryo.get_theory(f)
        return "theory:" + repr(sorted((a, b) for a, b in vars(th).items()))
    if k == "logic":
        lg = oracles.get_logic(f, env)
        return "logic:%s qf=%s %s" % (lg.name, lg.quantifier_free, repr(sorted(vars(lg.theory).items())))
    if k == "types":
        return [str(t) for t in env.typeso.get_types(f, custom_only=False)]
    if k == "size":
        return f.size(spec["measure"])
    if k == "serialize":
        return ("hr-text", f.serialize())
    if k == "to_smtlib":
        return ("smt-text", f.to_smtlib(daggify=spec.get("daggify", True)))
    if k == "nnf":
        return rw.nnf(f, env)
    if k == "cnf":
        return rw.cnf(f, env)
    if k == "prenex":
        return rw.prenex_normal_form(f, env)
    if k == "aig":
        return rw.aig(f, env)
    if k == "fresh":
        typ = bp.to_pysmt_type(spec["sort"], env)
        existing = set(mgr.symbols)
        s = mgr.FreshSymbol(typ) if spec.get("template") is None else mgr.FreshSymbol(typ, spec["template"])
        if s.symbol_name() in existing:
            return ("fresh-collides", s.symbol_name())
        return "fresh-symbol-of-type:%s" % s.symbol_type()
    if k == "model_value_shared":
        # the client keeps ONE model object (a partial assignment, so completion is needed) and
        # evaluates formula after formula with it
        return spec["_model"].get_value(f)
    if k == "model_value":
        from pysmt.solvers.eager import EagerModel
        assign = {}
        for n, srt in bp.symbols_of(term).items():
            if srt == bp.BOOL:
                assign[mgr.Symbol(n)] = mgr.Bool(len(n) % 2 == 0)
            elif srt == bp.INT:
                assign[mgr.Symbol(n, bp.to_pysmt_type(srt, env))] = mgr.Int(len(n) + 1)
            elif srt == bp.REAL:
                assign[mgr.Symbol(n, bp.to_pysmt_type(srt, env))] = mgr.Real((len(n) + 1, 2))
            elif bp.is_bv(srt):
                assign[mgr.Symbol(n, bp.to_pysmt_type(srt, env))] = mgr.BV(1, srt[1])
        return EagerModel(assign, env).get_value(f)
    if k == "parse_smtlib":
        return parse_smtlib_term(env, bp.to_smtlib(term), bp.symbols_of(term))
    if k == "foreign":
        ff = spec["_foreign"]          # the same blueprint built in another environment
        w = spec["what"]
        if w == "size":
            return env.sizeo.get_size(ff, spec["measure"])
        if w == "free_vars":
            return sorted(x.symbol_name() for x in env.fvo.get_free_variables(ff))
        if w == "atoms":
            return len(env.ao.get_atoms(ff) or ())
        if w == "is_qf":
            return env.qfo.is_qf(ff)
        if w == "types":
            return sorted(str(t_) for t_ in env.typeso.get_types(ff, custom_only=False))
        th = env.theoryo.get_theory(ff)
        return "theory:" + repr(sorted((a, b) for a, b in vars(th).items()))
    if k == "script_serialize":
        import pysmt.smtlib.commands as smtcmd
        from pysmt.smtlib.script import SmtLibScript
        from pysmt.smtlib.parser import SmtLibParser
        from pysmt.smtlib.annotations import Annotations
        fs = [f] + list(spec["_others"])
        script = SmtLibScript()
        syms = {}
        for x in fs:
            for v in x.get_free_variables():
                syms[v.symbol_name()] = v
        custom = []
        for x in fs:
            for t_ in env.typeso.get_types(x, custom_only=True):
                if t_ not in custom:
                    custom.append(t_)
        for t_ in custom:
            script.add(smtcmd.DECLARE_SORT, [t_.decl])
        for n in sorted(syms):
            script.add(smtcmd.DECLARE_FUN, [syms[n]])
        for x in fs:
            script.add(smtcmd.ASSERT, [x])
        if spec.get("named"):
            ann = Annotations()
            ann.add(fs[0], "named", "nm0")
            script.annotations = ann
        buf = StringIO()
        script.serialize(buf, daggify=spec.get("daggify", True))
        back = SmtLibParser(environment=env).get_script(StringIO(buf.getvalue()))
        got = [c.args[0] for c in back.commands if c.name == smtcmd.ASSERT]
        c_ = Canon(user_names=None)
        if len(got) != len(fs) or any(c_.key(a) != c_.key(b) for a, b in zip(got, fs)):
            # one printer object serves all commands of a script: what it prints for a command
            # must not depend on the commands it printed before
            bad = [j for j, (a, b) in enumerate(zip(got, fs)) if c_.key(a) != c_.key(b)]
            return ("script-roundtrip-broken", "assert #%s of %d reads back differently: %s" %
                    (bad[:3], len(fs), buf.getvalue()[:300]))
        return len(got)
    if k == "parse_long":
        parser = spec["_parser"]
        syms = bp.symbols_of(term)
        lines = []
        if spec.get("logic"):
            lines.append("(set-logic %s)" % spec["logic"])
        bound = {n for x in _subterms(term) if x[0] in bp.QUANT for n, _ in x[1]}
        for n, s_ in syms.items():
            if n in bound:
                continue
            if bp.is_fun(s_):
                lines.append("(declare-fun %s (%s) %s)" % (bp.smt_symbol(n), " ".join(bp.smt_sort(a) for a in s_[1]),
                                                           bp.smt_sort(s_[2])))
            else:
                lines.append("(declare-fun %s () %s)" % (bp.smt_symbol(n), bp.smt_sort(s_)))
        lines.append("(assert %s)" % bp.to_smtlib(term))
        if spec.get("numerals"):
            # bare numerals: their type (Int or Real) is decided by the logic of THIS script
            lines.append("(declare-fun nn_i () Int)")
            lines.append("(assert (or (< (+ 1 2) 4) (> nn_i 7)))")
        script = parser.get_script(StringIO("\n".join(lines) + "\n"))
        return [script.get_last_formula(mgr=env.formula_manager), len(script.commands)]
    if k == "parse_hr":
        from pysmt.parsing import HRParser
        if spec.get("i", 0) % 3 == 0:
            # the module-level shortcut (parses in the environment that is current at the call)
            import pysmt.parsing
            return pysmt.parsing.parse(f.serialize())
        return HRParser(env).parse(f.serialize())
    if k == "qelim":
        from pysmt.solvers.qelim import ShannonQuantifierEliminator, SelfSubstitutionQuantifierEliminator
        from pysmt.logics import BOOL as BOOL_LOGIC
        cls = ShannonQuantifierEliminator if spec.get("algo") == "shannon" else SelfSubstitutionQuantifierEliminator
        return cls(env, BOOL_LOGIC).eliminate_quantifiers(f)
    raise ValueError("unknown call %r" % k)


DWF_SERVICES = {"free_vars": ("FreeVarsOracle", "walk_simple_args"), "atoms": ("AtomsOracle", "walk_bool_op"),
                "is_qf": ("QuantifierOracle", "walk_all"), "types": ("TypesOracle", "walk_combine")}
_SHOUT = []


def _shout_printer():
    if not _SHOUT:
        from pysmt.printers import HRPrinter

        class ShoutPrinter(HRPrinter):
            def walk_symbol(self, formula):
                self.write("<%s>" % formula.symbol_name())
        _SHOUT.append(ShoutPrinter)
    return _SHOUT[0]


def register_dwf(env, spec):
    import pysmt.oracles as oracles
    cls_name, fn_name = DWF_SERVICES[spec["service"]]
    cls = getattr(oracles, cls_name)
    if cls in env.dwf.get(bp.xnode_type(), {}):
        return "already-registered"
    env.add_dynamic_walker_function(bp.xnode_type(), cls, getattr(cls, fn_name))
    return "registered"


def declare_freshlike(env, spec):
    import pysmt.typing as T
    mgr = env.formula_manager
    if spec["name"] in mgr.symbols:
        return "exists"
    mgr.Symbol(spec["name"], T.BOOL)
    return "declared"


CLOSER_LOGICS = ["QF_LIA", "QF_LRA", "QF_BV", "QF_UFLIRA", "LRA", "QF_AUFBV", "QF_IDL", "QF_RDL", "UFLIRA", "QF_UFLIA"]
FACTORY_LOGICS = ["QF_LIA", "QF_LRA", "QF_BV", "QF_UFLIRA", "LRA", "QF_AUFBV"]


def factory_register(env, spec):
    from pysmt.logics import get_logic_by_name
    env.factory.add_generic_solver(spec["name"], ["/bin/false"], [get_logic_by_name(l) for l in spec["logics"]],
                                   unsat_core_support=bool(spec.get("cores")))


def factory_call(env, spec):
    from pysmt.logics import get_logic_by_name
    fa = env.factory
    if spec["action"] == "add":
        factory_register(env, spec)
    lg = get_logic_by_name(spec["logic"])

    def mine(names):
        # solvers the harness itself registered for its simulated back-ends are not part of the answer
        return sorted(n for n in names if not n.startswith("ref"))
    out = ["factory", mine(fa.all_solvers(logic=lg)), bool(fa.has_solvers(logic=lg)),
           mine(fa.all_unsat_core_solvers(logic=lg)), mine(fa.all_solvers())]
    # the preference list of THIS factory mentions, besides the built-in names, exactly the
    # generic solvers registered with THIS factory, once each
    own = [n for n in fa.all_solvers() if fa.is_generic_solver(n)]
    extras = [n for n in fa.preferences["Solver"] if n.startswith("gen")]
    if sorted(extras) != sorted(n for n in own if n.startswith("gen")):
        return ("factory-preferences-foreign", "preference list mentions %s, generic solvers of this factory: %s" %
                (extras, sorted(own)))
    for n in mine(fa.all_solvers()):
        if fa.is_generic_solver(n):
            out.append([n, [str(l) for l in fa.get_generic_solver_info(n)[1]]])
    return out


def _subterms(t, acc=None):
    if acc is None:
        acc = []
    acc.append(t)
    for a in bp.args_of(t):
        _subterms(a, acc)
    return acc


def partial_model(env, symbols):
    """an EagerModel assigning only the symbols whose name has even length (the rest is completed)"""
    from pysmt.solvers.eager import EagerModel
    mgr = env.formula_manager
    assign = {}
    for n, srt in symbols.items():
        if len(n) % 2:
            continue
        if srt == bp.BOOL:
            assign[mgr.Symbol(n)] = mgr.Bool(True)
        elif srt == bp.INT:
            assign[mgr.Symbol(n, bp.to_pysmt_type(srt, env))] = mgr.Int(len(n) + 2)
        elif srt == bp.REAL:
            assign[mgr.Symbol(n, bp.to_pysmt_type(srt, env))] = mgr.Real((3, 2))
        elif bp.is_bv(srt):
            assign[mgr.Symbol(n, bp.to_pysmt_type(srt, env))] = mgr.BV(1, srt[1])
    return EagerModel(assign, env)


def parse_smtlib_term(env, text, symbols):
    from pysmt.smtlib.parser import SmtLibParser
    lines = []
    quantified = set()
    for n, s in symbols.items():
        if bp.is_fun(s):
            lines.append("(declare-fun %s (%s) %s)" % (bp.smt_symbol(n), " ".join(bp.smt_sort(a) for a in s[1]),
                                                       bp.smt_sort(s[2])))
        else:
            lines.append("(declare-fun %s () %s)" % (bp.smt_symbol(n), bp.smt_sort(s)))
    lines.append("(assert %s)" % text)
    script = SmtLibParser(environment=env).get_script(StringIO("\n".join(lines)))
    return script.get_last_formula(mgr=env.formula_manager)


def canon_value(env, raw, user_names, symbols=None):
    """canonical comparable form of a raw result obtained in `env`"""
    c = Canon(user_names=user_names)
    if isinstance(raw, tuple) and len(raw) == 2 and raw[0] == "smt-text":
        # compare printed text through re-parsing (AC order may legitimately differ)
        try:
            f = parse_smtlib_term(env, raw[1], symbols or {})
            return ["smt", c.result(f)]
        except Exception as ex:
            return ["smt-unparsable", type(ex).__name__]
    if isinstance(raw, tuple) and len(raw) == 2 and raw[0] == "hr-text":
        toks = sorted(raw[1].replace("(", " ").replace(")", " ").split())
        return ["hr", toks]
    return c.result(raw)


def outcome(env, spec, f, term, user_symbols, allowed=()):
    """("ok", canonical) | ("exc", class name); unexpected exception classes are returned, not raised"""
    try:
        raw = perform(env, spec, f, term, user_symbols)
    except Exception as ex:   # natural errors are part of the observable behaviour
        return ("exc", type(ex).__name__, None)
    names = set(user_symbols)
    return ("ok", canon_value(env, raw, names, bp.symbols_of(term)), raw)
