"""Catalogue of public-API calls on an Environment, parameterised by blueprints,
shared by the environment-history checks (C14, C15).

A call spec is a JSON dict {"call": name, "f": blueprint, ...}.  perform() runs
it on the environment that is currently the global one (pysmt's FNode helper
methods use the global environment) and returns the raw result; outcome()
wraps it into a canonical, comparable value:
     ("ok", canonical_result)  |  ("exc", exception class name)
"""
from io import StringIO

from dsim import bp
from dsim.canon import Canon

SIZE_MEASURES = 6

# calls that need nothing but the formula itself (can be applied to a derived formula)
DERIVABLE = ("simplify", "free_vars", "atoms", "is_qf", "theory", "logic", "types", "size", "serialize",
             "nnf", "cnf", "prenex", "aig", "get_type")

# calls whose result may contain freshly named symbols
FRESH_CALLS = ("cnf", "prenex", "fresh", "ackermann")
# calls that return a formula and must return the very same object when repeated
IDEMPOTENT_OBJECT_CALLS = ("build", "simplify", "substitute", "nnf", "aig", "normalize_self", "qelim_shannon",
                           "qelim_selfsub")


def gen_call(tape, pool_size, term_of, ctx_symbols, richgen, ctx):
    """draw one call spec over pool formula indices"""
    from dsim import richgen as rg
    kinds = [(3, "simplify"), (3, "substitute"), (2, "free_vars"), (2, "atoms"), (1, "is_qf"), (2, "theory"),
             (1, "logic"), (1, "types"), (3, "size"), (2, "serialize"), (2, "to_smtlib"), (1, "nnf"),
             (1, "cnf"), (1, "prenex"), (1, "aig"), (1, "get_type"), (2, "build"), (1, "fresh"),
             (1, "model_value"), (1, "parse_smtlib"), (1, "parse_hr"), (1, "qelim")]
    kinds = kinds + [(2, "substitute_shared"), (2, "parse_long")]
    k = tape.weighted(kinds, "call.kind")
    i = tape.draw(pool_size, "call.formula")
    spec = {"call": k, "i": i}
    t = term_of(i)
    if k in DERIVABLE and tape.chance(1, 4, "call.derived"):
        # apply the call to the formula returned by the most recent earlier call that
        # returned one (a simplification / substitution / normal form of some pool formula)
        spec["derived"] = True
    if k == "substitute_shared":
        # the client keeps ONE dict object and updates it in place between calls
        syms = [x for x in rg.subterms(t) if x[0] == "sym" and not bp.is_fun(x[2]) and not bp.is_array(x[2])]
        pairs = []
        for _ in range(tape.rint(1, 2, "shared.n")):
            if not syms:
                break
            key = tape.choice(syms, "shared.key")
            try:
                pairs.append([key, rg.gen(tape, key[2], 1, ctx)])
            except ValueError:
                pass
        spec["update"] = pairs
    if k == "parse_long":
        # a script (optionally with set-logic) parsed by the client's long-lived SmtLibParser
        spec["logic"] = tape.choice([None, None, "QF_LRA", "QF_LIA", "QF_BV", "QF_UFLIRA", "LRA"], "parse_long.logic")
        spec["numerals"] = tape.chance(1, 2, "parse_long.numerals")
    if k == "substitute":
        subs = rg.subterms(t)
        pairs = []
        for _ in range(tape.rint(1, 2, "subst.n")):
            key = tape.choice(subs, "subst.key")
            if key[0] in ("bool", "int", "real", "bv", "str"):
                continue
            srt = bp.sort_of(key)
            if bp.is_fun(srt):
                continue
            if key[0] != "sym" and not tape.chance(1, 3, "subst.subterm?"):
                # prefer symbols as keys
                syms = [x for x in subs if x[0] == "sym" and not bp.is_fun(x[2])]
                if syms:
                    key = tape.choice(syms, "subst.symkey")
                    srt = bp.sort_of(key)
            try:
                val = rg.gen(tape, srt, 1, ctx)
            except ValueError:
                continue
            pairs.append([key, val])
        spec["map"] = pairs
        spec["mss"] = bool(tape.draw(2, "subst.mss"))
    elif k == "size":
        spec["measure"] = tape.draw(SIZE_MEASURES, "size.measure")
    elif k == "to_smtlib":
        spec["daggify"] = bool(tape.draw(2, "daggify"))
    elif k == "build":
        spec["route"] = tape.choice(["mgr", "mgr", "shortcut"], "build.route")
    elif k == "fresh":
        spec["sort"] = tape.choice([bp.BOOL, bp.INT, bp.REAL, bp.BV(3)], "fresh.sort")
        spec["template"] = tape.choice([None, None, "FV%d", "x%d"], "fresh.template")
    elif k == "qelim":
        spec["algo"] = tape.choice(["shannon", "selfsub"], "qelim.algo")
    return spec


def perform(env, spec, f, term, user_symbols):
    """run the call on FNode f (built from blueprint `term` in env).  env is the global env."""
    import pysmt.rewritings as rw
    import pysmt.oracles as oracles
    mgr = env.formula_manager
    k = spec["call"]
    if k == "build":
        if spec.get("route") == "shortcut":
            import pysmt.shortcuts as sc
            return sc.get_env().formula_manager.normalize(bp.build(term, env))
        return bp.build(term, env)
    if k == "get_type":
        return f.get_type()
    if k == "simplify":
        return f.simplify()
    if k == "substitute":
        m = {}
        for key, val in spec["map"]:
            m[bp.build(key, env)] = bp.build(val, env)
        if spec.get("mss"):
            from pysmt.substituter import MSSubstituter
            return MSSubstituter(env).substitute(f, m)
        return f.substitute(m)
    if k == "substitute_shared":
        # spec["_dict"] is supplied by the caller: the client's long-lived dict (aged
        # environment) or a brand-new dict with the same content (reference environment)
        d = spec["_dict"]
        return f.substitute(d)
    if k == "free_vars":
        return f.get_free_variables()
    if k == "atoms":
        return f.get_atoms()
    if k == "is_qf":
        return env.qfo.is_qf(f)
    if k == "theory":
        th = env.theoryo.get_theory(f)
        return "theory:" + repr(sorted((a, b) for a, b in vars(th).items()))
    if k == "logic":
        lg = oracles.get_logic(f, env)
        return "logic:%s qf=%s %s" % (lg.name, lg.quantifier_free, repr(sorted(vars(lg.theory).items())))
    if k == "types":
        return [str(t) for t in env.typeso.get_types(f, custom_only=False)]
    if k == "size":
        return f.size(spec["measure"])
    if k == "serialize":
        return ("hr-text", f.serialize())
    if k == "to_smtlib":
        return ("smt-text", f.to_smtlib(daggify=spec.get("daggify", True)))
    if k == "nnf":
        return rw.nnf(f, env)
    if k == "cnf":
        return rw.cnf(f, env)
    if k == "prenex":
        return rw.prenex_normal_form(f, env)
    if k == "aig":
        return rw.aig(f, env)
    if k == "fresh":
        typ = bp.to_pysmt_type(spec["sort"], env)
        existing = set(mgr.symbols)
        s = mgr.FreshSymbol(typ) if spec.get("template") is None else mgr.FreshSymbol(typ, spec["template"])
        if s.symbol_name() in existing:
            return ("fresh-collides", s.symbol_name())
        return "fresh-symbol-of-type:%s" % s.symbol_type()
    if k == "model_value":
        from pysmt.solvers.eager import EagerModel
        assign = {}
        for n, srt in bp.symbols_of(term).items():
            if srt == bp.BOOL:
                assign[mgr.Symbol(n)] = mgr.Bool(len(n) % 2 == 0)
            elif srt == bp.INT:
                assign[mgr.Symbol(n, bp.to_pysmt_type(srt, env))] = mgr.Int(len(n) + 1)
            elif srt == bp.REAL:
                assign[mgr.Symbol(n, bp.to_pysmt_type(srt, env))] = mgr.Real((len(n) + 1, 2))
            elif bp.is_bv(srt):
                assign[mgr.Symbol(n, bp.to_pysmt_type(srt, env))] = mgr.BV(1, srt[1])
        return EagerModel(assign, env).get_value(f)
    if k == "parse_smtlib":
        return parse_smtlib_term(env, bp.to_smtlib(term), bp.symbols_of(term))
    if k == "parse_long":
        parser = spec["_parser"]
        syms = bp.symbols_of(term)
        lines = []
        if spec.get("logic"):
            lines.append("(set-logic %s)" % spec["logic"])
        bound = {n for x in _subterms(term) if x[0] in bp.QUANT for n, _ in x[1]}
        for n, s_ in syms.items():
            if n in bound:
                continue
            if bp.is_fun(s_):
                lines.append("(declare-fun %s (%s) %s)" % (bp.smt_symbol(n), " ".join(bp.smt_sort(a) for a in s_[1]),
                                                           bp.smt_sort(s_[2])))
            else:
                lines.append("(declare-fun %s () %s)" % (bp.smt_symbol(n), bp.smt_sort(s_)))
        lines.append("(assert %s)" % bp.to_smtlib(term))
        if spec.get("numerals"):
            # bare numerals: their type (Int or Real) is decided by the logic of THIS script
            lines.append("(declare-fun nn_i () Int)")
            lines.append("(assert (or (< (+ 1 2) 4) (> nn_i 7)))")
        script = parser.get_script(StringIO("\n".join(lines) + "\n"))
        return [script.get_last_formula(mgr=env.formula_manager), len(script.commands)]
    if k == "parse_hr":
        from pysmt.parsing import HRParser
        return HRParser(env).parse(f.serialize())
    if k == "qelim":
        from pysmt.solvers.qelim import ShannonQuantifierEliminator, SelfSubstitutionQuantifierEliminator
        from pysmt.logics import BOOL as BOOL_LOGIC
        cls = ShannonQuantifierEliminator if spec.get("algo") == "shannon" else SelfSubstitutionQuantifierEliminator
        return cls(env, BOOL_LOGIC).eliminate_quantifiers(f)
    raise ValueError("unknown call %r" % k)


def _subterms(t, acc=None):
    if acc is None:
        acc = []
    acc.append(t)
    for a in bp.args_of(t):
        _subterms(a, acc)
    return acc


def parse_smtlib_term(env, text, symbols):
    from pysmt.smtlib.parser import SmtLibParser
    lines = []
    quantified = set()
    for n, s in symbols.items():
        if bp.is_fun(s):
            lines.append("(declare-fun %s (%s) %s)" % (bp.smt_symbol(n), " ".join(bp.smt_sort(a) for a in s[1]),
                                                       bp.smt_sort(s[2])))
        else:
            lines.append("(declare-fun %s () %s)" % (bp.smt_symbol(n), bp.smt_sort(s)))
    lines.append("(assert %s)" % text)
    script = SmtLibParser(environment=env).get_script(StringIO("\n".join(lines)))
    return script.get_last_formula(mgr=env.formula_manager)


def canon_value(env, raw, user_names, symbols=None):
    """canonical comparable form of a raw result obtained in `env`"""
    c = Canon(user_names=user_names)
    if isinstance(raw, tuple) and len(raw) == 2 and raw[0] == "smt-text":
        # compare printed text through re-parsing (AC order may legitimately differ)
        try:
            f = parse_smtlib_term(env, raw[1], symbols or {})
            return ["smt", c.result(f)]
        except Exception as ex:
            return ["smt-unparsable", type(ex).__name__]
    if isinstance(raw, tuple) and len(raw) == 2 and raw[0] == "hr-text":
        toks = sorted(raw[1].replace("(", " ").replace(")", " ").split())
        return ["hr", toks]
    return c.result(raw)


def outcome(env, spec, f, term, user_symbols, allowed=()):
    """("ok", canonical) | ("exc", class name); unexpected exception classes are returned, not raised"""
    try:
        raw = perform(env, spec, f, term, user_symbols)
    except Exception as ex:   # natural errors are part of the observable behaviour
        return ("exc", type(ex).__name__, None)
    names = set(user_symbols)
    return ("ok", canon_value(env, raw, names, bp.symbols_of(term)), raw)
