"""Simulation kernel: tasks (baton-passing real threads), seeded scheduler,
discrete-event virtual clock, kill, deadlock detection.

Exactly one task runs at any time: a task runs only while it holds the baton
(its own semaphore was released by the task that gave it up).  Every
pre-emption point is a call into this kernel from a simulated primitive; at
each one the runnable set is computed and the tape picks who runs next.  With a
single task no thread is ever created and the kernel only provides the virtual
clock and deadlock detection.
"""
import threading


class SimDeadlock(BaseException):
    """delivered to the main task when nothing can ever run again (or a budget is
    exhausted).  BaseException so that no `except Exception` in the code under
    test can swallow it."""

    def __init__(self, reason, detail=""):
        BaseException.__init__(self, "%s %s" % (reason, detail))
        self.reason = reason
        self.detail = detail


class TaskKilled(BaseException):
    """unwinds the thread of a killed task; never caught by `except Exception`"""


READY, BLOCKED, DONE, DEAD = "ready", "blocked", "done", "dead"


class Task(object):
    def __init__(self, kernel, name, fn, args):
        self.kernel = kernel
        self.name = name
        self.fn = fn
        self.args = args
        self.state = READY
        self.pred = None
        self.deadline = None
        self.timed_out = False
        self.wait_label = None
        self.sem = threading.Semaphore(0)
        self.thread = None
        self.exitcode = None
        self.pending_exc = None
        self.finished = threading.Event()
        self.on_exit = []       # callbacks run (by the dying task or the killer) at exit/kill
        self.is_main = False
        self.started = False

    def alive(self):
        return self.state in (READY, BLOCKED)

    def __repr__(self):
        return "<Task %s %s>" % (self.name, self.state)


class Kernel(object):
    def __init__(self, tape, max_steps=20000, max_time=1000.0, trace=False):
        self.tape = tape
        self.now = 0.0
        self.steps = 0
        self.choices = 0           # scheduling decisions among >= 2 runnable tasks
        self.max_steps = max_steps
        self.max_time = max_time
        self.tasks = []
        self.current = None
        self.main = None
        self.shutdown = False
        self.trace = [] if trace else None
        self.sched_log = []        # (step, chosen task name, n_runnable) for digests
        self.deadlocked = None
        self.by_thread = {}
        self.timers = []           # absolute virtual times at which predicates may change

    def add_timer(self, t):
        if t > self.now:
            self.timers.append(t)

    # ------------------------------------------------------------ tasks
    def run_main(self, fn, *args):
        t = Task(self, "main", fn, args)
        t.is_main = True
        t.started = True
        t.thread = threading.current_thread()
        self.by_thread[t.thread.ident] = t
        self.main = t
        self.current = t
        self.tasks.append(t)
        try:
            return fn(*args)
        finally:
            t.state = DONE
            self._shutdown()

    def spawn(self, name, fn, args=()):
        t = Task(self, name, fn, args)
        self.tasks.append(t)
        t.thread = threading.Thread(target=self._thread_body, args=(t,), name="sim")
        t.thread.daemon = True
        t.started = True
        t.thread.start()
        self.by_thread[t.thread.ident] = t
        return t

    def _thread_body(self, t):
        t.sem.acquire()                      # wait for the baton
        try:
            if t.state == DEAD or self.shutdown:
                return
            self.current = t
            try:
                t.fn(*t.args)
                t.exitcode = 0
            except TaskKilled:
                return
            except BaseException:            # uncaught exception in a simulated process
                t.exitcode = 1
        finally:
            was_dead = t.state == DEAD
            if not was_dead:
                t.state = DONE
                for cb in t.on_exit:
                    cb(t, True)
            t.finished.set()
            if not was_dead and not self.shutdown:
                self._handoff_from_finished()

    def _shutdown(self):
        self.shutdown = True
        for t in self.tasks:
            if t.is_main:
                continue
            if not t.finished.is_set():
                if t.state != DEAD:
                    t.state = DEAD
                t.sem.release()
                t.finished.wait(10)

    # ------------------------------------------------------------ scheduling
    def _runnable(self):
        out = []
        for t in self.tasks:
            if t.state == READY:
                out.append(t)
            elif t.state == BLOCKED:
                if t.pred is not None and t.pred():
                    out.append(t)
                elif t.deadline is not None and t.deadline <= self.now:
                    out.append(t)
        return out

    def _next_timer(self):
        ds = [t.deadline for t in self.tasks if t.state == BLOCKED and t.deadline is not None]
        self.timers = [t for t in self.timers if t > self.now]
        ds += self.timers
        return min(ds) if ds else None

    def _pick(self):
        """choose the next task to run (may be the current one); advances the clock if needed"""
        self.steps += 1
        if self.steps > self.max_steps:
            return self._deliver_deadlock("step-limit", "more than %d scheduler steps" % self.max_steps)
        while True:
            run = self._runnable()
            if run:
                break
            nt = self._next_timer()
            if nt is None:
                return self._deliver_deadlock("deadlock", self._describe_blocked())
            if nt > self.max_time:
                return self._deliver_deadlock("time-limit", "virtual time would exceed %.0fs" % self.max_time)
            self.now = max(self.now, nt)
        if len(run) > 1:
            self.choices += 1
            i = self.tape.draw(len(run), "sched")
        else:
            i = 0
        t = run[i]
        self.sched_log.append((t.name, len(run)))
        return t

    def _describe_blocked(self):
        return "; ".join("%s waits on %s" % (t.name, t.wait_label) for t in self.tasks if t.state == BLOCKED)

    def _deliver_deadlock(self, reason, detail):
        m = self.main
        self.deadlocked = (reason, detail)
        if m.state == DONE:
            return None
        m.pending_exc = SimDeadlock(reason, detail)
        m.state = READY
        m.pred = None
        m.deadline = None
        return m

    def _resume_checks(self, me):
        if me.state == DEAD or (self.shutdown and not me.is_main):
            raise TaskKilled()
        self.current = me
        if me.pending_exc is not None:
            ex, me.pending_exc = me.pending_exc, None
            raise ex

    def _switch(self, me):
        """me has set its own state; pick the next task and hand over the baton"""
        nxt = self._pick()
        if nxt is None or nxt is me:
            if nxt is me:
                if me.state == BLOCKED:
                    me.timed_out = not (me.pred is not None and me.pred())
                me.state = READY
                me.pred = None
                me.deadline = None
            self._resume_checks(me)
            return
        self._wake(nxt)
        me.sem.acquire()
        self._resume_checks(me)

    def _wake(self, t):
        if t.state == BLOCKED:
            t.timed_out = not (t.pred is not None and t.pred())
        t.state = READY
        t.pred = None
        t.deadline = None
        t.sem.release()

    def _handoff_from_finished(self):
        nxt = self._pick()
        if nxt is not None:
            self._wake(nxt)

    # ------------------------------------------------------------ API for primitives
    def me(self):
        return self._task_of_thread()

    def me_task(self):
        return self.by_thread.get(threading.get_ident())

    def is_dead(self):
        """true when the calling task has been killed (or the run is being torn
        down): its primitives must be silent no-ops"""
        if self.shutdown:
            return True          # the run is over: late finalisers must not touch anything
        me = self.by_thread.get(threading.get_ident())
        if me is None:
            return True          # e.g. a finaliser running in a foreign thread
        if me.is_main:
            return False
        return me.state == DEAD

    def _task_of_thread(self):
        return self.by_thread.get(threading.get_ident(), self.main)

    def yield_point(self, label=""):
        me = self._task_of_thread()
        if me.state == DEAD or self.shutdown:
            if not me.is_main:
                raise TaskKilled()
            return
        if self.trace is not None:
            self.trace.append((me.name, "yield", label))
        me.state = READY
        self._switch(me)

    def block_until(self, pred, label="", timeout=None):
        """returns True if pred became true, False on (virtual) timeout"""
        me = self._task_of_thread()
        if me.state == DEAD or self.shutdown:
            if not me.is_main:
                raise TaskKilled()
            return pred()
        if pred():
            # still a pre-emption point
            self.yield_point(label)
            if pred():
                return True
        if self.trace is not None:
            self.trace.append((me.name, "block", label))
        while True:
            me.state = BLOCKED
            me.pred = pred
            me.wait_label = label
            me.deadline = None if timeout is None else self.now + timeout
            me.timed_out = False
            dl = me.deadline
            self._switch(me)
            if pred():
                return True
            if dl is not None and self.now >= dl:
                return False
            # spurious (predicate consumed by someone else): block again
            if dl is not None:
                timeout = dl - self.now

    def sleep(self, dt):
        me = self._task_of_thread()
        if me.state == DEAD or self.shutdown:
            if not me.is_main:
                raise TaskKilled()
            return
        if dt <= 0:
            return self.yield_point("sleep0")
        me.state = BLOCKED
        me.pred = None
        me.wait_label = "sleep"
        me.deadline = self.now + dt
        self._switch(me)

    def sleep_until(self, t):
        if t > self.now:
            self.sleep(t - self.now)

    def kill(self, victim):
        """synchronous: the victim never again performs a simulated side effect"""
        if victim.state in (DONE, DEAD):
            return
        victim.state = DEAD
        victim.exitcode = -15
        victim.pred = None
        victim.deadline = None
        for cb in victim.on_exit:
            cb(victim, False)
