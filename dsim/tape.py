"""Choice tape: the only source of randomness in a simulated run.

A run is a pure function of (plan, tape, code).  In *generate* mode every
draw comes from a PRNG seeded by one integer and is recorded; in *replay* mode
draws are read back from the recorded list (exhausted tape -> 0, out-of-range
value -> v % n) so a shrunk tape is still a valid tape.

Logging never draws.
"""
import random


class Tape(object):
    __slots__ = ("seed", "rng", "rec", "pos", "replay", "labels", "keep_labels")

    def __init__(self, seed=None, replay=None, keep_labels=False):
        self.seed = seed
        self.replay = None if replay is None else list(replay)
        self.rng = random.Random(seed) if replay is None else None
        self.rec = []
        self.pos = 0
        self.keep_labels = keep_labels
        self.labels = []

    # -- core ---------------------------------------------------------
    def draw(self, n, label=None):
        """int in [0, n).  n <= 1 consumes nothing."""
        if n <= 1:
            return 0
        if self.replay is None:
            v = self.rng.randrange(n)
        else:
            if self.pos < len(self.replay):
                v = self.replay[self.pos] % n
            else:
                v = 0
            self.pos += 1
        self.rec.append(v)
        if self.keep_labels:
            self.labels.append(label)
        return v

    # -- helpers ------------------------------------------------------
    def chance(self, num, den, label=None):
        """True with probability num/den; 0 (False) is the simple choice."""
        if num <= 0:
            return False
        if num >= den:
            return True
        return self.draw(den, label) >= den - num

    def choice(self, seq, label=None):
        return seq[self.draw(len(seq), label)]

    def rint(self, lo, hi, label=None):
        """int in [lo, hi] inclusive; lo is the simple choice."""
        return lo + self.draw(hi - lo + 1, label)

    def weighted(self, pairs, label=None):
        """pairs: [(weight, value)]; first entry is the simple choice."""
        tot = sum(w for w, _ in pairs)
        v = self.draw(tot, label)
        for w, x in pairs:
            if v < w:
                return x
            v -= w
        return pairs[-1][1]

    def shuffle(self, lst, label=None):
        lst = list(lst)
        for i in range(len(lst) - 1, 0, -1):
            j = i - self.draw(i + 1, label)   # 0 -> keep in place
            lst[i], lst[j] = lst[j], lst[i]
        return lst

    def subset(self, seq, num=1, den=2, label=None):
        return [x for x in seq if self.chance(num, den, label)]

    def recorded(self):
        return list(self.rec)

    def fork(self, salt):
        """Independent generate-mode tape derived from this one's seed
        (used only in generate mode, e.g. one tape per plan section)."""
        assert self.replay is None
        return Tape(seed=(self.seed * 1000003 + salt) & 0xFFFFFFFFFFFF)
