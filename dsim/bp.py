"""Blueprints: the harness's own typed term AST (JSON-friendly nested lists).

Terms are generated as blueprints, evaluated as blueprints (SMT-LIB semantics
written here from the standard, sharing no code with pySMT) and only then built
into pySMT.  "Truth" used by oracles is always computed on blueprints.

sorts:  "Bool" | "Int" | "Real" | ["BV", w] | ["S", name]
terms:  ["sym", name, sort] | ["bool", b] | ["int", n] | ["real", num, den]
        | ["bv", value, width] | [op, arg...]            (term arguments only)
        | ["extract", hi, lo, t] | ["zext", k, t] | ["sext", k, t]
        | ["rol", k, t] | ["ror", k, t]
"""
from fractions import Fraction
import itertools

BOOL = "Bool"
INT = "Int"
REAL = "Real"


def BV(w):
    return ["BV", w]


def is_bv(s):
    return isinstance(s, (list, tuple)) and s[0] == "BV"


def is_usort(s):
    return isinstance(s, (list, tuple)) and s[0] == "S"


STRING = "String"


def is_array(s):
    return isinstance(s, (list, tuple)) and s[0] == "Array"


def is_fun(s):
    return isinstance(s, (list, tuple)) and s[0] == "Fun"


def ARRAY(i, e):
    return ["Array", i, e]


def sort_key(s):
    if isinstance(s, str):
        return s
    return tuple(sort_key(x) if isinstance(x, (list, tuple)) else x for x in s)


def same_sort(a, b):
    return sort_key(a) == sort_key(b)


PARAM_OPS = {"extract": 2, "zext": 1, "sext": 1, "rol": 1, "ror": 1}
BOOL_CONNECTIVES = ("not", "and", "or", "implies", "iff", "xor")
BV_REL = ("bvult", "bvule", "bvugt", "bvuge", "bvslt", "bvsle", "bvsgt", "bvsge")
BV_BIN = ("bvand", "bvor", "bvxor", "bvadd", "bvsub", "bvmul", "bvudiv", "bvurem",
          "bvshl", "bvlshr", "bvashr", "bvsdiv", "bvsrem")
BV_UN = ("bvnot", "bvneg")
INT_REL = ("<=", "<", ">=", ">")
INT_BIN = ("+", "-", "*")


LEAVES = ("sym", "bool", "int", "real", "bv", "str")
QUANT = ("forall", "exists")


def args_of(t):
    op = t[0]
    if op in LEAVES:
        return []
    if op == "app":
        return t[4:]
    if op in QUANT:
        return [t[2]]
    if op == "arrayval":
        return [t[2]] + [x for kv in t[3] for x in kv]
    if op in PARAM_OPS:
        return t[1 + PARAM_OPS[op]:]
    return t[1:]


def sort_of(t):
    op = t[0]
    if op == "sym":
        return t[2]
    if op == "bool":
        return BOOL
    if op == "int":
        return INT
    if op == "real":
        return REAL
    if op == "bv":
        return ["BV", t[2]]
    if op in BOOL_CONNECTIVES or op in BV_REL or op in INT_REL or op in ("=", "distinct"):
        return BOOL
    if op == "ite":
        return sort_of(t[2])
    if op in BV_BIN or op in BV_UN:
        return sort_of(t[1])
    if op == "bvcomp":
        return ["BV", 1]
    if op == "concat":
        return ["BV", sort_of(t[1])[1] + sort_of(t[2])[1]]
    if op == "extract":
        return ["BV", t[1] - t[2] + 1]
    if op in ("zext", "sext"):
        return ["BV", sort_of(t[2])[1] + t[1]]
    if op in ("rol", "ror"):
        return sort_of(t[2])
    if op in INT_BIN:
        return sort_of(t[1])
    if op == "toreal":
        return REAL
    if op == "/":
        return REAL
    if op == "str":
        return STRING
    if op in ("str.++", "str.replace", "str.substr", "str.at", "int.to.str"):
        return STRING
    if op in ("str.len", "str.indexof", "str.to.int", "bv2nat"):
        return INT
    if op in ("str.contains", "str.prefixof", "str.suffixof"):
        return BOOL
    if op == "select":
        return sort_of(t[1])[2]
    if op == "store":
        return sort_of(t[1])
    if op == "arrayval":
        return ["Array", t[1], sort_of(t[2])]
    if op == "app":
        return t[3]
    if op in QUANT:
        return BOOL
    if op == "xnode":
        return BOOL
    raise ValueError("sort_of: unknown op %r" % (op,))


def symbols_of(t, acc=None):
    """ordered dict name -> sort of the free symbols"""
    if acc is None:
        acc = {}
    stack = [t]
    while stack:
        x = stack.pop()
        if x[0] == "sym":
            if x[1] not in acc:
                acc[x[1]] = x[2]
        else:
            if x[0] == "app" and x[1] not in acc:
                acc[x[1]] = ["Fun", x[2], x[3]]
            if x[0] in QUANT:
                for n, srt in x[1]:
                    if n not in acc:
                        acc[n] = srt
            stack.extend(reversed(args_of(x)))
    return acc


def size(t):
    n = 0
    stack = [t]
    while stack:
        x = stack.pop()
        n += 1
        stack.extend(args_of(x))
    return n


# ---------------------------------------------------------------- evaluation

def _signed(v, w):
    return v - (1 << w) if v >> (w - 1) else v


def _mask(w):
    return (1 << w) - 1


def _udiv(a, b, w):
    return _mask(w) if b == 0 else a // b


def _urem(a, b, w):
    return a if b == 0 else a % b


def _neg(a, w):
    return (-a) & _mask(w)


def _sdiv(a, b, w):
    sa, sb = a >> (w - 1), b >> (w - 1)
    if not sa and not sb:
        return _udiv(a, b, w)
    if sa and not sb:
        return _neg(_udiv(_neg(a, w), b, w), w)
    if not sa and sb:
        return _neg(_udiv(a, _neg(b, w), w), w)
    return _udiv(_neg(a, w), _neg(b, w), w)


def _srem(a, b, w):
    sa, sb = a >> (w - 1), b >> (w - 1)
    if not sa and not sb:
        return _urem(a, b, w)
    if sa and not sb:
        return _neg(_urem(_neg(a, w), b, w), w)
    if not sa and sb:
        return _urem(a, _neg(b, w), w)
    return _neg(_urem(_neg(a, w), _neg(b, w), w), w)


def evaluate(t, env):
    """env: name -> python value (bool, int, Fraction; BV as unsigned int;
    uninterpreted-sort elements as ints)."""
    op = t[0]
    if op == "sym":
        return env[t[1]]
    if op == "bool":
        return bool(t[1])
    if op == "int":
        return int(t[1])
    if op == "real":
        return Fraction(t[1], t[2])
    if op in QUANT:
        # finite sorts only: the bound variables range over their whole domain
        names = [n for n, _ in t[1]]
        doms = [domain(s_) for _, s_ in t[1]]
        res = (evaluate(t[2], dict(env, **dict(zip(names, vals)))) for vals in itertools.product(*doms))
        return all(res) if op == "forall" else any(res)
    if op == "select" and isinstance(evaluate(t[1], env), tuple):
        return evaluate(t[1], env)[int(evaluate(t[2], env))]
    if op == "store" and isinstance(evaluate(t[1], env), tuple):
        a = list(evaluate(t[1], env))
        a[int(evaluate(t[2], env))] = evaluate(t[3], env)
        return tuple(a)
    if op == "bv":
        return int(t[1])
    if op == "not":
        return not evaluate(t[1], env)
    if op == "and":
        for a in t[1:]:
            if not evaluate(a, env):
                return False
        return True
    if op == "or":
        for a in t[1:]:
            if evaluate(a, env):
                return True
        return False
    if op == "implies":
        return (not evaluate(t[1], env)) or evaluate(t[2], env)
    if op == "iff":
        return evaluate(t[1], env) == evaluate(t[2], env)
    if op == "xor":
        return evaluate(t[1], env) != evaluate(t[2], env)
    if op == "ite":
        return evaluate(t[2], env) if evaluate(t[1], env) else evaluate(t[3], env)
    if op == "=":
        return evaluate(t[1], env) == evaluate(t[2], env)
    if op == "distinct":
        vs = [evaluate(a, env) for a in t[1:]]
        return len(set(vs)) == len(vs)
    if op in PARAM_OPS:
        x = t[1 + PARAM_OPS[op]]
        w = sort_of(x)[1]
        v = evaluate(x, env)
        if op == "extract":
            return (v >> t[2]) & _mask(t[1] - t[2] + 1)
        if op == "zext":
            return v
        if op == "sext":
            return _signed(v, w) & _mask(w + t[1])
        k = t[1] % w
        if op == "rol":
            return ((v << k) | (v >> (w - k))) & _mask(w)
        if op == "ror":
            return ((v >> k) | (v << (w - k))) & _mask(w)
    if op in BV_REL:
        w = sort_of(t[1])[1]
        a, b = evaluate(t[1], env), evaluate(t[2], env)
        if op[2] == "s":
            a, b = _signed(a, w), _signed(b, w)
        kind = op[3:]
        return {"lt": a < b, "le": a <= b, "gt": a > b, "ge": a >= b}[kind]
    if op in BV_UN:
        w = sort_of(t[1])[1]
        a = evaluate(t[1], env)
        return (~a) & _mask(w) if op == "bvnot" else _neg(a, w)
    if op in BV_BIN:
        w = sort_of(t[1])[1]
        a, b = evaluate(t[1], env), evaluate(t[2], env)
        m = _mask(w)
        if op == "bvand":
            return a & b
        if op == "bvor":
            return a | b
        if op == "bvxor":
            return a ^ b
        if op == "bvadd":
            return (a + b) & m
        if op == "bvsub":
            return (a - b) & m
        if op == "bvmul":
            return (a * b) & m
        if op == "bvudiv":
            return _udiv(a, b, w)
        if op == "bvurem":
            return _urem(a, b, w)
        if op == "bvshl":
            return 0 if b >= w else (a << b) & m
        if op == "bvlshr":
            return 0 if b >= w else a >> b
        if op == "bvashr":
            s = _signed(a, w)
            return (s >> min(b, w)) & m
        if op == "bvsdiv":
            return _sdiv(a, b, w)
        if op == "bvsrem":
            return _srem(a, b, w)
    if op == "bvcomp":
        return 1 if evaluate(t[1], env) == evaluate(t[2], env) else 0
    if op == "concat":
        w2 = sort_of(t[2])[1]
        return (evaluate(t[1], env) << w2) | evaluate(t[2], env)
    if op in INT_REL:
        a, b = evaluate(t[1], env), evaluate(t[2], env)
        return {"<=": a <= b, "<": a < b, ">=": a >= b, ">": a > b}[op]
    if op == "+":
        return sum(evaluate(a, env) for a in t[1:])
    if op == "-":
        return evaluate(t[1], env) - evaluate(t[2], env)
    if op == "*":
        r = 1
        for a in t[1:]:
            r = r * evaluate(a, env)
        return r
    if op == "toreal":
        return Fraction(evaluate(t[1], env))
    if op == "app":
        return env[(t[1], tuple(evaluate(a, env) for a in t[4:]))]
    raise ValueError("evaluate: unknown op %r" % (op,))


def domain(sort, int_range=(-2, 2), usort_card=2):
    if sort == BOOL:
        return [False, True]
    if is_bv(sort):
        return list(range(1 << sort[1]))
    if sort == INT:
        return list(range(int_range[0], int_range[1] + 1))
    if is_usort(sort):
        return list(range(usort_card))
    if is_array(sort):
        # an array value is the tuple of its elements, indexed by the position of the index value
        di = domain(sort[1], int_range, usort_card)
        de = domain(sort[2], int_range, usort_card)
        return list(itertools.product(de, repeat=len(di)))
    raise ValueError("no finite domain for %r" % (sort,))


def assignments(symbols, int_ranges=None, usort_card=2):
    """all assignments over {name: sort}; int_ranges: name -> (lo, hi)"""
    names = []
    doms = []
    for n in symbols:
        s = symbols[n]
        if is_fun(s):
            # an uninterpreted function is a table: one entry per argument tuple
            adoms = [domain(a, usort_card=usort_card) for a in s[1]]
            rdom = domain(s[2], usort_card=usort_card)
            for tup in itertools.product(*adoms):
                names.append((n, tup))
                doms.append(rdom)
        elif s == INT and int_ranges and n in int_ranges:
            names.append(n)
            doms.append(list(range(int_ranges[n][0], int_ranges[n][1] + 1)))
        else:
            names.append(n)
            doms.append(domain(s, usort_card=usort_card))
    for vals in itertools.product(*doms):
        yield dict(zip(names, vals))


def models(formulas, symbols, int_ranges=None, usort_card=2):
    """all assignments over `symbols` satisfying every Bool blueprint in formulas"""
    out = []
    for a in assignments(symbols, int_ranges, usort_card):
        ok = True
        for f in formulas:
            if not evaluate(f, a):
                ok = False
                break
        if ok:
            out.append(a)
    return out


def satisfiable(formulas, symbols, int_ranges=None, usort_card=2):
    for a in assignments(symbols, int_ranges, usort_card):
        if all(evaluate(f, a) for f in formulas):
            return True
    return False


# ---------------------------------------------------------------- generation

class GenCtx(object):
    """what the generator may use: symbols by sort and knobs"""

    def __init__(self, symbols, bv=True, ints=False, usorts=False, int_consts=(-2, 3),
                 rich_bv=True, quant=False):
        self.quant = quant
        self.symbols = dict(symbols)       # name -> sort
        self.bv = bv
        self.ints = ints
        self.usorts = usorts
        self.int_consts = int_consts
        self.rich_bv = rich_bv

    def syms_of(self, sort):
        k = sort_key(sort)
        return [n for n, s in self.symbols.items() if sort_key(s) == k]

    def bv_widths(self):
        return sorted({s[1] for s in self.symbols.values() if is_bv(s)})

    def funs_of(self, ret):
        k = sort_key(ret)
        return [(n, s) for n, s in self.symbols.items() if is_fun(s) and sort_key(s[2]) == k]

    def arrays_over_usorts(self):
        return [(n, s) for n, s in self.symbols.items() if is_array(s) and is_usort(s[2])]

    def usort_list(self):
        seen = []
        for s in self.symbols.values():
            if is_fun(s):
                s = s[2]
            if is_usort(s) and sort_key(s) not in [sort_key(x) for x in seen]:
                seen.append(s)
        return seen


def gen_leaf(tape, sort, ctx):
    syms = ctx.syms_of(sort)
    if is_usort(sort):
        return ["sym", tape.choice(syms, "leaf.sym"), sort]
    if syms and tape.chance(3, 4, "leaf.symbol?"):
        return ["sym", tape.choice(syms, "leaf.sym"), sort]
    if sort == BOOL:
        return ["bool", bool(tape.draw(2, "leaf.bool"))]
    if sort == INT:
        return ["int", tape.rint(ctx.int_consts[0], ctx.int_consts[1], "leaf.int")]
    if is_bv(sort):
        return ["bv", tape.draw(1 << sort[1], "leaf.bv"), sort[1]]
    raise ValueError(sort)


def gen_term(tape, sort, depth, ctx):
    if depth <= 0 or tape.chance(1, 5, "term.leaf?"):
        return gen_leaf(tape, sort, ctx)
    d = depth - 1
    fs = ctx.funs_of(sort)
    if fs and tape.chance(1, 5, "term.uf?"):
        n, s = tape.choice(fs, "term.uf")
        return ["app", n, s[1], s[2]] + [gen_term(tape, a, d, ctx) for a in s[1]]
    if sort == BOOL:
        kinds = [(3, "conn"), (1, "ite"), (1, "booleq")]
        if ctx.bv and ctx.bv_widths():
            kinds += [(3, "bvrel"), (2, "bveq")]
        if ctx.ints and ctx.syms_of(INT):
            kinds += [(3, "intrel"), (1, "inteq")]
        if ctx.usorts and ctx.usort_list():
            kinds += [(2, "ueq")]
        if ctx.usorts and ctx.arrays_over_usorts():
            kinds += [(3, "aeq")]
        if ctx.usorts and ctx.quant and ctx.usort_list():
            kinds += [(3, "uq")]
        ufu = [(n, s) for n, s in ctx.symbols.items() if is_fun(s) and is_usort(s[2])] if ctx.usorts else []
        if ufu:
            kinds += [(3, "ufeq")]
        k = tape.weighted(kinds, "bool.kind")
        if k == "uq":
            # a quantifier over a declared sort: the sort occurs in the binders (and maybe nowhere else)
            s = tape.choice(ctx.usort_list(), "uq.sort")
            # (pySMT's bound variables are symbols of the environment: one name per sort)
            # (one of the two names needs |quoting| in SMT-LIB)
            na, nb = "qa_%s" % s[1], "q b_%s" % s[1]
            qa, qb = ["sym", na, s], ["sym", nb, s]
            body = tape.choice([["not", ["=", qa, qb]], ["=", qa, qb], ["or", ["=", qa, qb], gen_term(tape, BOOL, 0, ctx)]], "uq.body")
            return [tape.choice(QUANT, "uq.q"), [[na, s], [nb, s]], body]
        if k == "ufeq":
            # two applications of a function whose result sort is a declared sort: the sort occurs
            # only in the function's signature
            n1, s1 = tape.choice(ufu, "ufeq.fun")
            return ["=", ["app", n1, s1[1], s1[2]] + [gen_term(tape, a, d, ctx) for a in s1[1]],
                    ["app", n1, s1[1], s1[2]] + [gen_term(tape, a, d, ctx) for a in s1[1]]]
        if k == "aeq":
            # elements of an array over a declared sort compared with each other: the sort occurs
            # only inside the array type
            n1, s1 = tape.choice(ctx.arrays_over_usorts(), "aeq.array")
            same = [(n_, s_) for n_, s_ in ctx.arrays_over_usorts() if sort_key(s_) == sort_key(s1)]
            n2, _ = tape.choice(same, "aeq.array2")
            a1, a2 = ["sym", n1, s1], ["sym", n2, s1]
            if tape.chance(1, 3, "aeq.store"):
                a2 = ["store", a2, gen_term(tape, s1[1], d, ctx), ["select", a1, gen_term(tape, s1[1], d, ctx)]]
            if tape.chance(1, 4, "aeq.whole"):
                return ["=", a1, a2]
            return ["=", ["select", a1, gen_term(tape, s1[1], d, ctx)], ["select", a2, gen_term(tape, s1[1], d, ctx)]]
        if k == "conn":
            op = tape.choice(BOOL_CONNECTIVES, "bool.conn")
            if op == "not":
                return ["not", gen_term(tape, BOOL, d, ctx)]
            if op in ("and", "or"):
                n = tape.rint(2, 3, "bool.nary")
                return [op] + [gen_term(tape, BOOL, d, ctx) for _ in range(n)]
            return [op, gen_term(tape, BOOL, d, ctx), gen_term(tape, BOOL, d, ctx)]
        if k == "ite":
            return ["ite", gen_term(tape, BOOL, d, ctx), gen_term(tape, BOOL, d, ctx),
                    gen_term(tape, BOOL, d, ctx)]
        if k == "booleq":
            return ["iff", gen_term(tape, BOOL, d, ctx), gen_term(tape, BOOL, d, ctx)]
        if k in ("bvrel", "bveq"):
            w = tape.choice(ctx.bv_widths(), "bool.bvw")
            op = tape.choice(BV_REL, "bool.bvrel") if k == "bvrel" else "="
            return [op, gen_term(tape, BV(w), d, ctx), gen_term(tape, BV(w), d, ctx)]
        if k in ("intrel", "inteq"):
            op = tape.choice(INT_REL, "bool.intrel") if k == "intrel" else "="
            return [op, gen_term(tape, INT, d, ctx), gen_term(tape, INT, d, ctx)]
        if k == "ueq":
            s = tape.choice(ctx.usort_list(), "bool.usort")
            return ["=", gen_term(tape, s, d, ctx), gen_term(tape, s, d, ctx)]
    if is_bv(sort):
        w = sort[1]
        kinds = [(4, "bin"), (1, "un"), (1, "ite")]
        if ctx.rich_bv:
            kinds += [(1, "rot"), (1, "extract")]
            if w >= 2:
                kinds += [(1, "concat"), (1, "ext")]
            if w == 1:
                kinds += [(1, "comp")]
        k = tape.weighted(kinds, "bv.kind")
        if k == "bin":
            op = tape.choice(BV_BIN, "bv.bin")
            return [op, gen_term(tape, sort, d, ctx), gen_term(tape, sort, d, ctx)]
        if k == "un":
            return [tape.choice(BV_UN, "bv.un"), gen_term(tape, sort, d, ctx)]
        if k == "ite":
            return ["ite", gen_term(tape, BOOL, d, ctx), gen_term(tape, sort, d, ctx),
                    gen_term(tape, sort, d, ctx)]
        if k == "rot":
            return [tape.choice(("rol", "ror"), "bv.rot"), tape.draw(w + 1, "bv.rotk"),
                    gen_term(tape, sort, d, ctx)]
        if k == "extract":
            # extract w bits out of a wider (or equal) vector
            extra = tape.draw(3, "bv.extract.extra")
            lo = tape.draw(extra + 1, "bv.extract.lo")
            return ["extract", lo + w - 1, lo, gen_term(tape, BV(w + extra), d, ctx)]
        if k == "concat":
            w1 = tape.rint(1, w - 1, "bv.concat.w1")
            return ["concat", gen_term(tape, BV(w1), d, ctx), gen_term(tape, BV(w - w1), d, ctx)]
        if k == "ext":
            kx = tape.rint(0, w - 1, "bv.ext.k")      # 0: the degenerate extension is still a ZEXT / SEXT node
            return [tape.choice(("zext", "sext"), "bv.ext"), kx, gen_term(tape, BV(w - kx), d, ctx)]
        if k == "comp":
            ws = ctx.bv_widths() or [1]
            w2 = tape.choice(ws, "bv.comp.w")
            return ["bvcomp", gen_term(tape, BV(w2), d, ctx), gen_term(tape, BV(w2), d, ctx)]
    if sort == INT:
        k = tape.weighted([(3, "+"), (2, "-"), (1, "*"), (1, "ite")], "int.kind")
        if k == "+":
            n = tape.rint(2, 3, "int.nary")
            return ["+"] + [gen_term(tape, INT, d, ctx) for _ in range(n)]
        if k == "-":
            return ["-", gen_term(tape, INT, d, ctx), gen_term(tape, INT, d, ctx)]
        if k == "*":
            return ["*", ["int", tape.rint(-2, 3, "int.coef")], gen_term(tape, INT, d, ctx)]
        return ["ite", gen_term(tape, BOOL, d, ctx), gen_term(tape, INT, d, ctx),
                gen_term(tape, INT, d, ctx)]
    if is_usort(sort):
        return gen_leaf(tape, sort, ctx)
    raise ValueError("gen_term: %r" % (sort,))


def shrink_candidates(t):
    """simpler terms of the same sort (for plan-level minimisation)"""
    s = sort_of(t)
    out = []
    for a in args_of(t):
        if same_sort(sort_of(a), s):
            out.append(a)
    if t[0] not in LEAVES:
        if s == BOOL:
            out += [["bool", True], ["bool", False]]
        elif s == INT:
            out += [["int", 0]]
        elif is_bv(s):
            out += [["bv", 0, s[1]]]
    # recurse one level: replace one argument by a simpler one
    op = t[0]
    if op not in LEAVES and op not in ("app", "arrayval") and op not in QUANT:
        base = 1 + PARAM_OPS.get(op, 0)
        for i in range(base, len(t)):
            for c in shrink_candidates(t[i]):
                out.append(t[:i] + [c] + t[i + 1:])
    return out


# ---------------------------------------------------------------- rendering

def pretty(t):
    op = t[0]
    if op == "sym":
        return t[1]
    if op == "bool":
        return "true" if t[1] else "false"
    if op == "int":
        return str(t[1])
    if op == "real":
        return "%d/%d" % (t[1], t[2])
    if op == "bv":
        return "#b" + format(t[1], "0%db" % t[2])
    if op in PARAM_OPS:
        n = PARAM_OPS[op]
        return "((_ %s %s) %s)" % (op, " ".join(str(x) for x in t[1:1 + n]), pretty(t[1 + n]))
    if op == "str":
        return '"%s"' % t[1]
    if op == "app":
        return "(%s %s)" % (t[1], " ".join(pretty(a) for a in t[4:]))
    if op in QUANT:
        return "(%s (%s) %s)" % (op, " ".join("(%s %s)" % (n, smt_sort(s_)) for n, s_ in t[1]), pretty(t[2]))
    if op == "arrayval":
        return "(array %s default %s %s)" % (smt_sort(t[1]), pretty(t[2]),
                                             " ".join("[%s]=%s" % (pretty(k), pretty(v)) for k, v in t[3]))
    return "(%s %s)" % (op, " ".join(pretty(a) for a in t[1:]))


# ---------------------------------------------------------------- building into pySMT

_XNODE = [None]


def xnode_type():
    """a custom node type (documented extension API: operators.new_node_type), created
    once per process; typed Bool x Bool -> Bool through the dynamic-walker API for the
    type checker only, so every other service meets an unsupported operator"""
    if _XNODE[0] is None:
        import pysmt.operators as op
        _XNODE[0] = op.new_node_type(node_str="XNODE")
    return _XNODE[0]


def to_pysmt_type(sort, env):
    import pysmt.typing as T
    if sort == BOOL:
        return T.BOOL
    if sort == INT:
        return T.INT
    if sort == REAL:
        return T.REAL
    # (through the environment's OWN type manager, whichever environment is the current one)
    tm = env.type_manager
    if is_bv(sort):
        return tm.BVType(sort[1])
    if is_usort(sort):
        return tm.Type(sort[1], 0)
    if sort == STRING:
        return T.STRING
    if is_array(sort):
        return tm.ArrayType(to_pysmt_type(sort[1], env), to_pysmt_type(sort[2], env))
    if is_fun(sort):
        return tm.FunctionType(to_pysmt_type(sort[2], env), [to_pysmt_type(a, env) for a in sort[1]])
    raise ValueError(sort)


def build(t, env, cache=None):
    """Build a blueprint into `env` (pysmt Environment) using manager methods."""
    mgr = env.formula_manager
    op = t[0]
    if op == "sym":
        return mgr.Symbol(t[1], to_pysmt_type(t[2], env))
    if op == "bool":
        return mgr.Bool(bool(t[1]))
    if op == "int":
        return mgr.Int(int(t[1]))
    if op == "real":
        return mgr.Real(Fraction(t[1], t[2]))
    if op == "bv":
        return mgr.BV(int(t[1]), int(t[2]))
    if op == "str":
        return mgr.String(t[1])
    if op == "app":
        f = mgr.Symbol(t[1], to_pysmt_type(["Fun", t[2], t[3]], env))
        return mgr.Function(f, [build(x, env) for x in t[4:]])
    if op in QUANT:
        vs = [mgr.Symbol(n, to_pysmt_type(s_, env)) for n, s_ in t[1]]
        body = build(t[2], env)
        return mgr.ForAll(vs, body) if op == "forall" else mgr.Exists(vs, body)
    if op == "arrayval":
        return mgr.Array(to_pysmt_type(t[1], env), build(t[2], env),
                         dict((build(k, env), build(v, env)) for k, v in t[3]))
    if op in PARAM_OPS:
        x = build(t[1 + PARAM_OPS[op]], env)
        if op == "extract":
            return mgr.BVExtract(x, t[2], t[1])
        if op == "zext":
            return mgr.BVZExt(x, t[1])
        if op == "sext":
            return mgr.BVSExt(x, t[1])
        if op == "rol":
            return mgr.BVRol(x, t[1])
        if op == "ror":
            return mgr.BVRor(x, t[1])
    a = [build(x, env) for x in t[1:]]
    if op == "not":
        return mgr.Not(a[0])
    if op == "and":
        return mgr.And(a)
    if op == "or":
        return mgr.Or(a)
    if op == "implies":
        return mgr.Implies(a[0], a[1])
    if op == "iff":
        return mgr.Iff(a[0], a[1])
    if op == "xor":
        return mgr.Xor(a[0], a[1])
    if op == "ite":
        return mgr.Ite(a[0], a[1], a[2])
    if op == "=":
        return mgr.EqualsOrIff(a[0], a[1])
    if op == "distinct":
        return mgr.AllDifferent(a)
    table = {
        "bvult": mgr.BVULT, "bvule": mgr.BVULE, "bvugt": mgr.BVUGT, "bvuge": mgr.BVUGE,
        "bvslt": mgr.BVSLT, "bvsle": mgr.BVSLE, "bvsgt": mgr.BVSGT, "bvsge": mgr.BVSGE,
        "bvand": mgr.BVAnd, "bvor": mgr.BVOr, "bvxor": mgr.BVXor, "bvadd": mgr.BVAdd,
        "bvsub": mgr.BVSub, "bvmul": mgr.BVMul, "bvudiv": mgr.BVUDiv, "bvurem": mgr.BVURem,
        "bvshl": mgr.BVLShl, "bvlshr": mgr.BVLShr, "bvashr": mgr.BVAShr,
        "bvsdiv": mgr.BVSDiv, "bvsrem": mgr.BVSRem, "bvcomp": mgr.BVComp,
        "concat": mgr.BVConcat, "<=": mgr.LE, "<": mgr.LT, ">=": mgr.GE, ">": mgr.GT,
        "-": mgr.Minus,
    }
    if op in table:
        return table[op](a[0], a[1])
    if op == "bvnot":
        return mgr.BVNot(a[0])
    if op == "bvneg":
        return mgr.BVNeg(a[0])
    if op == "+":
        return mgr.Plus(a)
    if op == "*":
        return mgr.Times(a)
    if op == "toreal":
        return mgr.ToReal(a[0])
    if op == "xnode":
        return mgr.create_node(node_type=xnode_type(), args=(a[0], a[1]))
    if op == "/":
        return mgr.Div(a[0], a[1])
    if op == "select":
        return mgr.Select(a[0], a[1])
    if op == "store":
        return mgr.Store(a[0], a[1], a[2])
    if op == "bv2nat":
        return mgr.BVToNatural(a[0])
    strops = {"str.++": lambda: mgr.StrConcat(a), "str.len": lambda: mgr.StrLength(a[0]),
              "str.contains": lambda: mgr.StrContains(a[0], a[1]),
              "str.prefixof": lambda: mgr.StrPrefixOf(a[0], a[1]),
              "str.suffixof": lambda: mgr.StrSuffixOf(a[0], a[1]),
              "str.at": lambda: mgr.StrCharAt(a[0], a[1]),
              "str.to.int": lambda: mgr.StrToInt(a[0]), "int.to.str": lambda: mgr.IntToStr(a[0]),
              "str.indexof": lambda: mgr.StrIndexOf(a[0], a[1], a[2]),
              "str.replace": lambda: mgr.StrReplace(a[0], a[1], a[2]),
              "str.substr": lambda: mgr.StrSubstr(a[0], a[1], a[2])}
    if op in strops:
        return strops[op]()
    raise ValueError("build: unknown op %r" % (op,))


def value_to_bp(v, sort):
    if sort == BOOL:
        return ["bool", bool(v)]
    if sort == INT:
        return ["int", int(v)]
    if is_bv(sort):
        return ["bv", int(v), sort[1]]
    raise ValueError(sort)


def fnode_const_value(c):
    """python value of a pysmt constant FNode (BV -> unsigned int)"""
    assert c.is_constant(), c
    return c.constant_value()


# ---------------------------------------------------------------- SMT-LIB text (own printer)

_SMT_NAMES = {"implies": "=>", "iff": "=", "toreal": "to_real"}
_SMT_PARAM = {"extract": "extract", "zext": "zero_extend", "sext": "sign_extend",
              "rol": "rotate_left", "ror": "rotate_right"}


def smt_symbol(name):
    import re
    if re.match(r"^[A-Za-z_~!@$%^&*+=<>.?/-][0-9A-Za-z_~!@$%^&*+=<>.?/-]*$", name):
        return name
    return "|%s|" % name


def smt_sort(s):
    if isinstance(s, str):
        return s
    if s[0] == "BV":
        return "(_ BitVec %d)" % s[1]
    if s[0] == "Array":
        return "(Array %s %s)" % (smt_sort(s[1]), smt_sort(s[2]))
    if s[0] == "Fun":
        return "(%s) %s" % (" ".join(smt_sort(a) for a in s[1]), smt_sort(s[2]))
    return smt_symbol(s[1])


def to_smtlib(t):
    op = t[0]
    if op == "sym":
        return smt_symbol(t[1])
    if op == "bool":
        return "true" if t[1] else "false"
    if op == "int":
        return str(t[1]) if t[1] >= 0 else "(- %d)" % (-t[1])
    if op == "real":
        num = "%d.0" % abs(t[1])
        if t[2] != 1:
            num = "(/ %s %d.0)" % (num, t[2])
        return num if t[1] >= 0 else "(- %s)" % num
    if op == "bv":
        return "#b" + format(t[1], "0%db" % t[2])
    if op in PARAM_OPS:
        n = PARAM_OPS[op]
        return "((_ %s %s) %s)" % (_SMT_PARAM[op], " ".join(str(x) for x in t[1:1 + n]),
                                   to_smtlib(t[1 + n]))
    if op == "str":
        return '"%s"' % t[1].replace('"', '""')
    if op == "app":
        return "(%s %s)" % (smt_symbol(t[1]), " ".join(to_smtlib(a) for a in t[4:]))
    if op in QUANT:
        return "(%s (%s) %s)" % (op, " ".join("(%s %s)" % (smt_symbol(n), smt_sort(s_)) for n, s_ in t[1]),
                                 to_smtlib(t[2]))
    if op == "arrayval":
        r = "((as const %s) %s)" % (smt_sort(["Array", t[1], sort_of(t[2])]), to_smtlib(t[2]))
        for k, v in t[3]:
            r = "(store %s %s %s)" % (r, to_smtlib(k), to_smtlib(v))
        return r
    return "(%s %s)" % (_SMT_NAMES.get(op, op), " ".join(to_smtlib(a) for a in t[1:]))
