"""BruteSolver: the real IncrementalTrackingSolver base class over a simulated
back end.

The back end is the "disk" of this simulation: it keeps its *own* assertion
stack from the proxy calls it receives (_push/_pop/_add_assertion/
_reset_assertions), decides satisfiability by exhaustive enumeration over a
finite table of assignments, and returns a model chosen by the choice tape
(the solver's free choice is a scheduling decision).

It follows the convention of pySMT's in-tree native back ends (z3): every
proxy is wrapped in clear_pending_pop, non-literal assumptions go through
push/add_assertion/pending_pop, popping below level 0 is an error.
"""
import itertools

from pysmt.solvers.solver import IncrementalTrackingSolver, SolverOptions
from pysmt.solvers.eager import EagerModel
from pysmt.decorators import clear_pending_pop
from pysmt.exceptions import (SolverReturnedUnknownResultError,
                              ConvertExpressionError, InternalSolverError)
from pysmt.logics import PYSMT_LOGICS
from pysmt.optimization.optimizer import SUAOptimizerMixin, IncrementalOptimizerMixin

from dsim import feval


class BruteOptions(SolverOptions):
    def __call__(self, solver):
        pass


class Table(object):
    """the finite table of assignments: domains: ordered name -> list of values"""

    def __init__(self, domains):
        self.names = list(domains)
        doms = [list(domains[n]) for n in self.names]
        rows = list(itertools.product(*doms)) if doms else [()]
        self.n = len(rows)
        self.rows = rows
        self.columns = {}
        for i, name in enumerate(self.names):
            self.columns[name] = [r[i] for r in rows]
        self.full = (1 << self.n) - 1

    def row_env(self, i):
        return dict(zip(self.names, self.rows[i]))

    def index_of(self, row):
        if not hasattr(self, "_index"):
            self._index = {r: i for i, r in enumerate(self.rows)}
        return self._index[row]


class BruteSolver(IncrementalTrackingSolver):
    LOGICS = PYSMT_LOGICS
    OptionsClass = BruteOptions

    def __init__(self, environment, logic, table=None, tape=None, policy="uniform",
                 assumption_style="z3", fault_plan=None, model_scope="all", **options):
        IncrementalTrackingSolver.__init__(self, environment=environment,
                                           logic=logic, **options)
        self.mgr = environment.formula_manager
        self.table = table
        self.vec = feval.VecEval(table.columns, table.n)
        self.tape = tape
        self.policy = policy
        self.assumption_style = assumption_style
        # "asserted": like real solvers, a model assigns only the symbols that occur in the live
        # assertions / assumptions; the values of the others come from model completion (any value
        # does: the caller must make sure the default is in the symbol's domain)
        self.model_scope = model_scope
        self.b_assumption_syms = set()
        self.fault_plan = dict(fault_plan or {})   # {"unknown_at": {k,...}, "convert_at": {k,...}}
        self.adversary_key = None    # row index -> sortable "progress" (harness-provided)
        # ---- back-end state (the "disk")
        self.b_frames = [[]]
        self.b_log = []
        self.b_illegal = []
        self.b_counts = {"solve": 0, "add": 0, "push": 0, "pop": 0, "reset": 0}
        self.b_model_row = None
        self.b_last_models = 0
        self.faults_fired = {}

    # ------------------------------------------------------------ helpers
    def _mask_of(self, formula):
        try:
            return self.vec.mask(formula)
        except feval.EvalError as ex:
            raise ConvertExpressionError(message="BruteSolver cannot convert: %s" % ex,
                                         expression=formula)

    def b_live(self):
        return [f for fr in self.b_frames for (f, _) in fr]

    def b_depth(self):
        return len(self.b_frames) - 1

    def _fire(self, kind):
        self.faults_fired[kind] = self.faults_fired.get(kind, 0) + 1

    # ------------------------------------------------------------ proxies
    @clear_pending_pop
    def _reset_assertions(self):
        if self.fault_plan.get("refuse_next_reset"):
            self.fault_plan["refuse_next_reset"] = False
            self._fire("reset_refused")
            raise InternalSolverError("reset-assertions is not supported right now")
        self.b_counts["reset"] += 1
        self.b_log.append(("reset",))
        self.b_frames = [[]]
        self.b_model_row = None

    @clear_pending_pop
    def _add_assertion(self, formula, named=None):
        self._assert_is_boolean(formula)
        self.b_counts["add"] += 1
        if self.b_counts["add"] in self.fault_plan.get("convert_at", ()):
            self._fire("convert_error")
            raise ConvertExpressionError(message="injected conversion failure",
                                         expression=formula)
        m = self._mask_of(formula)
        self.b_log.append(("assert", formula))
        self.b_frames[-1].append((formula, m))
        self.b_model_row = None
        return formula

    @clear_pending_pop
    def _push(self, levels=1):
        if self.b_counts["push"] + 1 in self.fault_plan.get("push_fails_at", ()):
            # the back end refuses this push (nothing is pushed)
            self.b_counts["push"] += 1
            self._fire("push_refused")
            raise InternalSolverError("push refused")
        self.b_counts["push"] += 1
        self.b_log.append(("push", levels))
        for _ in range(levels):
            self.b_frames.append([])

    @clear_pending_pop
    def _pop(self, levels=1):
        if self.fault_plan.get("interrupt_next_pop"):
            # the user's Ctrl-C / a cancellation lands exactly here, before anything was popped
            self.fault_plan["interrupt_next_pop"] = False
            self._fire("interrupted_pop")
            raise KeyboardInterrupt()
        self.b_counts["pop"] += 1
        self.b_log.append(("pop", levels))
        if levels > self.b_depth():
            self.b_illegal.append("pop %d at depth %d" % (levels, self.b_depth()))
            raise InternalSolverError("pop(%d) at depth %d" % (levels, self.b_depth()))
        for _ in range(levels):
            self.b_frames.pop()
        self.b_model_row = None

    @clear_pending_pop
    def _solve(self, assumptions=None):
        mask = self.table.full
        self.b_assumption_syms = set()
        if assumptions is not None:
            assumptions = list(assumptions)
            for x in assumptions:
                self.b_assumption_syms |= {v.symbol_name() for v in x.get_free_variables()}
            if self.assumption_style == "z3":
                lits, others = [], []
                for x in assumptions:
                    (lits if x.is_literal() else others).append(x)
                if others:
                    self.push()
                    self.add_assertion(self.mgr.And(others))
                    self.pending_pop = True
                for x in lits:
                    mask &= self._mask_of(x)
            else:
                for x in assumptions:
                    mask &= self._mask_of(x)
        self.b_counts["solve"] += 1
        self.b_log.append(("solve", self.b_depth(), len(self.b_live())))
        if self.b_counts["solve"] in self.fault_plan.get("unknown_at", ()):
            self._fire("unknown")
            self.b_model_row = None
            raise SolverReturnedUnknownResultError()
        for fr in self.b_frames:
            for (_, m) in fr:
                mask &= m
        if mask == 0:
            self.b_model_row = None
            self.b_last_models = 0
            return False
        rows = [i for i in range(self.table.n) if (mask >> i) & 1]
        self.b_last_models = len(rows)
        self.b_model_row = self._pick(rows)
        self.b_scope = None
        if self.model_scope == "asserted":
            # symbols outside the live assertions / assumptions are unconstrained: the solver's own
            # model gives them the default value (as model completion does), consistently for
            # get_value() on the solver and on the model object
            scope = set(self.b_assumption_syms)
            for f in self.b_live():
                scope |= {v.symbol_name() for v in f.get_free_variables()}
            self.b_scope = scope
            env = self.table.row_env(self.b_model_row)
            row = tuple((env[n] if n in scope else (False if isinstance(env[n], bool) else 0)) for n in self.table.names)
            self.b_model_row = self.table.index_of(row)
            assert (mask >> self.b_model_row) & 1, "default completion left the model set"
        return True

    def _pick(self, rows):
        pol = self.policy
        if len(rows) == 1 or pol == "first":
            return rows[0]
        if pol in ("worst", "best") and self.adversary_key is not None:
            keys = [self.adversary_key(i) for i in rows]
            target = min(keys) if pol == "worst" else max(keys)
            rows = [r for r, k in zip(rows, keys) if k == target]
            if len(rows) == 1:
                return rows[0]
        return rows[self.tape.draw(len(rows), "model.pick")]

    # ------------------------------------------------------------ model
    def get_model(self):
        if self.b_model_row is None:
            raise InternalSolverError("no model available")
        env = self.table.row_env(self.b_model_row)
        assignment = {}
        scope = getattr(self, "b_scope", None)
        for name, v in env.items():
            if scope is not None and name not in scope:
                continue
            s = self.mgr.get_symbol(name)
            assignment[s] = feval.py_to_const(self.mgr, v, s.symbol_type())
        return EagerModel(assignment=assignment, environment=self.environment)

    def get_value(self, item):
        self._assert_no_function_type(item)
        if self.b_model_row is None:
            raise InternalSolverError("no model available")
        try:
            col = self.vec.column(item)
        except feval.EvalError as ex:
            raise ConvertExpressionError(message=str(ex), expression=item)
        return feval.py_to_const(self.mgr, col[self.b_model_row], item.get_type())

    def _exit(self):
        pass


class BruteSUAOptimizer(BruteSolver, SUAOptimizerMixin):
    pass


class BruteIncrementalOptimizer(BruteSolver, IncrementalOptimizerMixin):
    pass


def script_optimizer_class():
    """an optimiser that also offers the SMT-LIB command interface SmtLibScript.evaluate() drives"""
    from pysmt.solvers.smtlib import SmtLibBasicSolver

    class BruteScriptOptimizer(BruteIncrementalOptimizer, SmtLibBasicSolver):
        pass
    return BruteScriptOptimizer
