"""Seed sweep, budgets, minimisation, replay files, known findings, evidence.

A property module (props/cXX.py) provides:

  ID, LEVEL, RULE, COMPONENTS {"real": [...], "stub": [...]}, ASSUMPTIONS [...]
  TIERS = {"quick": {"runs": N, ...}, "thorough": {"runs": M, ...}}
  gen_plan(tape, tier_cfg)   -> JSON-serialisable plan (dict with an "ops" list)
  execute(plan, tape)        -> info dict; raises Violation
        info keys: digest (str), nontrivial (bool), probes {name: int},
                   faults {kind: int}, sim_time (float), steps (int), sample (json)
  shrink_plan(plan)          -> iterable of simpler candidate plans (optional)

One simulated run k of a batch is a pure function of the integer
run_seed = VERIF_SEED*1_000_003 + k: the plan is generated from Tape(run_seed)
and run-time decisions (scheduling, fault timing, model choice) are drawn from
Tape(run_seed ^ SCHED_SALT).  A failing run is minimised (plan first, then the
run-time tape) and written as a replay file; replaying re-executes exactly
(plan, tape) and must reproduce the same violation signature.

Process history.  The runs of one batch execute one after the other in one
process (a child forked for that batch from a process that has executed
nothing), so what run k observes is a function of the plans k0..k of its batch
and of nothing else.  When a violation does not reproduce from its own
(plan, tape) in a fresh interpreter, it depends on state that the code under
test kept across *environments* in the process (class-level or module-level
tables).  It is then replayed together with its predecessors of the batch
(the "prelude"), the prelude is minimised, and the replay file carries it.
"""
import faulthandler
import gc
import hashlib
import importlib
import json
import multiprocessing
import os
import pickle
import signal
import subprocess
import threading
import sys
import time
import traceback
import warnings
from concurrent.futures import ProcessPoolExecutor, wait, FIRST_COMPLETED

from dsim.tape import Tape

VERIF_DIR = os.path.dirname(os.path.dirname(os.path.abspath(__file__)))
SCHED_SALT = 0x5DEECE66D
SEED_MULT = 1000003


class Violation(Exception):
    """the property under check does not hold on this run"""

    def __init__(self, sig, msg, detail=None):
        Exception.__init__(self, "%s: %s" % (sig, msg))
        self.sig = sig
        self.msg = msg
        self.detail = detail


class Illegal(Exception):
    """an op of a (shrunk) plan is not applicable in the current state: skipped"""


def api(label, fn, *args, **kwargs):
    """Call into the code under test.  `allowed` exception classes propagate;
    any other exception is a violation (the property promised a result)."""
    allowed = kwargs.pop("allowed", ())
    try:
        return fn(*args, **kwargs)
    except Violation:
        raise
    except allowed:
        raise
    except Exception as ex:  # noqa
        tb = traceback.extract_tb(sys.exc_info()[2])
        where = ""
        for fr in reversed(tb):
            if "/pysmt/" in fr.filename:
                where = "%s:%s" % (os.path.basename(fr.filename), fr.name)
                break
        raise Violation("%s:raised:%s" % (label, type(ex).__name__),
                        "%s raised %s: %s (at %s)" % (label, type(ex).__name__,
                                                      str(ex)[:200], where))


def _quiet():
    """pysmt.shortcuts re-enables warnings for pysmt modules when it is imported:
    import it first, then silence (deprecation notices are not findings)"""
    try:
        import pysmt.shortcuts  # noqa
    except Exception:
        pass
    warnings.simplefilter("ignore")


def load(pid):
    return importlib.import_module("props.%s" % pid.lower())


def run_seed_of(base, k):
    return base * SEED_MULT + k


def digest_of(obj):
    return hashlib.blake2b(repr(obj).encode(), digest_size=8).hexdigest()


# ------------------------------------------------------------------ one run

class RunTimeout(BaseException):
    """a call into the code under test did not return within RUN_WALL_CAP_S of wall-clock time"""


RUN_WALL_CAP_S = int(os.environ.get("VERIF_RUN_WALL_CAP_S", "100"))


def run_once(mod, plan, sched):
    """execute (plan, sched tape list or Tape) -> ("ok", info) | ("viol", sig, msg, tape)"""
    tape = sched if isinstance(sched, Tape) else Tape(replay=sched)
    _quiet()
    gc_control = getattr(mod, "GC_CONTROL", False)
    if gc_control:
        # finalisers of simulated streams must never run at an allocation-dependent
        # moment inside a run: collect only between runs (when every primitive is a no-op)
        gc.disable()
    # bounded liveness of plain library calls: a run is milliseconds to a few seconds of work; one
    # that is still going after RUN_WALL_CAP_S (a loop that never ends) is reported, not waited for
    armed = False
    if threading.current_thread() is threading.main_thread():
        def on_alarm(signum, frame):
            raise RunTimeout()
        try:
            signal.signal(signal.SIGALRM, on_alarm)
            signal.alarm(RUN_WALL_CAP_S)
            armed = True
        except (ValueError, OSError):
            armed = False
    try:
        info = mod.execute(plan, tape)
        return ("ok", info, tape.recorded())
    except Violation as v:
        return ("viol", v.sig, v.msg, tape.recorded())
    except RunTimeout:
        return ("viol", "%s:call-never-returned" % mod.ID,
                "the run did not finish within %d s of wall-clock time (a call into pySMT never returned)" % RUN_WALL_CAP_S,
                tape.recorded())
    finally:
        if armed:
            signal.alarm(0)
        if gc_control:
            gc.collect()
            gc.enable()


def generate(mod, run_seed, cfg):
    return mod.gen_plan(Tape(run_seed), cfg)


def forked(fn, *args):
    """run fn(*args) in a forked child and return its (pickled) result; the caller's process
    executes nothing of it.  Raises RuntimeError if the child died."""
    r, w = os.pipe()
    sys.stdout.flush()
    sys.stderr.flush()
    child = os.fork()
    if child == 0:
        code = 1
        try:
            os.close(r)
            res = fn(*args)
            with os.fdopen(w, "wb") as f:
                pickle.dump(res, f)
            code = 0
        except BaseException:
            try:
                traceback.print_exc()
            except Exception:
                pass
        finally:
            os._exit(code)
    os.close(w)
    chunks = []
    with os.fdopen(r, "rb") as f:
        while True:
            b = f.read(1 << 16)
            if not b:
                break
            chunks.append(b)
    _, status = os.waitpid(child, 0)
    if status != 0 or not chunks:
        raise RuntimeError("forked child failed (wait status %d)" % status)
    return pickle.loads(b"".join(chunks))


def _worker(args):
    try:
        return forked(_batch, args)
    except RuntimeError as e:
        return {"err": "batch k0=%d: %s" % (args[2], e)}


def _batch(args):
    pid, base, k0, k1, cfg, wall_cap = args
    import warnings
    warnings.simplefilter("ignore")
    faulthandler.dump_traceback_later(wall_cap, exit=True)
    mod = load(pid)
    agg = {"runs": 0, "nontrivial": 0, "digests": set(), "probes": {}, "faults": {},
           "sim_time": 0.0, "steps": 0, "samples": [], "viol": [], "err": None,
           "all_digest": hashlib.blake2b(digest_size=8), "verdict_digest": hashlib.blake2b(digest_size=8)}
    for k in range(k0, k1):
        rs = run_seed_of(base, k)
        try:
            plan = generate(mod, rs, cfg)
            r = run_once(mod, plan, Tape(rs ^ SCHED_SALT))
        except Exception:  # harness error
            agg["err"] = "run_seed=%d\n%s" % (rs, traceback.format_exc())
            break
        agg["runs"] += 1
        if r[0] == "ok":
            info = r[1]
            agg["all_digest"].update(info["digest"].encode())
            agg["verdict_digest"].update(b"ok;")
            if info.get("nontrivial"):
                agg["nontrivial"] += 1
                agg["digests"].add(info["digest"])
            for n, c in info.get("probes", {}).items():
                agg["probes"][n] = agg["probes"].get(n, 0) + c
            for n, c in info.get("faults", {}).items():
                agg["faults"][n] = agg["faults"].get(n, 0) + c
            agg["sim_time"] += info.get("sim_time", 0.0)
            agg["steps"] += info.get("steps", 0)
            if len(agg["samples"]) < 1 and info.get("nontrivial") and "sample" in info:
                agg["samples"].append({"run_seed": rs, "case": info["sample"]})
        else:
            agg["all_digest"].update(("V:" + r[1]).encode())
            agg["verdict_digest"].update(("V:" + r[1] + ";").encode())
            if len(agg["viol"]) < 4:
                agg["viol"].append({"run_seed": rs, "sig": r[1], "msg": r[2],
                                    "plan": plan, "tape": r[3], "k": k, "k0": k0})
            else:
                agg["viol"].append({"run_seed": rs, "sig": r[1], "msg": r[2]})
    faulthandler.cancel_dump_traceback_later()
    agg["all_digest"] = agg["all_digest"].hexdigest()
    agg["verdict_digest"] = agg["verdict_digest"].hexdigest()
    return agg


# ------------------------------------------------------------------ shrinking

def run_prelude(mod, prelude):
    """execute earlier runs of the process history; their own verdicts are not this run's business"""
    for pr in prelude or []:
        try:
            run_once(mod, pr["plan"], Tape(pr["run_seed"] ^ SCHED_SALT))
        except Exception:
            pass


def _same(mod, plan, tape, sig):
    try:
        r = run_once(mod, plan, tape)
    except Exception:
        return None
    if r[0] == "viol" and r[1] == sig:
        return r[3]
    return None


def _same_after(mod, prelude, plan, tape, sig):
    run_prelude(mod, prelude)
    return _same(mod, plan, tape, sig)


def shrink_history(mod, prelude, plan, tape, sig, budget_s=60.0):
    """minimise the prelude (which earlier runs are needed), every candidate in a forked child"""
    t0 = time.time()
    n_exec = [0]

    def ok(pre):
        if time.time() - t0 > budget_s:
            return False
        n_exec[0] += 1
        try:
            return forked(_same_after, mod, pre, plan, tape, sig) is not None
        except RuntimeError:
            return False

    if not ok(prelude):
        return None, n_exec[0]
    size = max(1, len(prelude) // 2)
    while size >= 1:
        i = 0
        while i < len(prelude):
            cand = prelude[:i] + prelude[i + size:]
            if ok(cand):
                prelude = cand
            else:
                i += size
        size //= 2
    # the ops of the remaining prelude runs
    for j in range(len(prelude)):
        ops = prelude[j]["plan"].get("ops", [])
        size = max(1, len(ops) // 2)
        while size >= 1 and time.time() - t0 < budget_s:
            i = 0
            while i < len(prelude[j]["plan"]["ops"]):
                cur = prelude[j]["plan"]["ops"]
                cp = dict(prelude[j]["plan"])
                cp["ops"] = cur[:i] + cur[i + size:]
                cand = prelude[:j] + [dict(prelude[j], plan=cp)] + prelude[j + 1:]
                if ok(cand):
                    prelude = cand
                else:
                    i += size
            size //= 2
    return prelude, n_exec[0]


def shrink(mod, plan, tape, sig, budget_s=25.0, max_exec=1500, prelude=None):
    import warnings
    warnings.simplefilter("ignore")
    t0 = time.time()
    n_exec = [0]

    def ok(p, t):
        if time.time() - t0 > budget_s or n_exec[0] >= max_exec:
            return None
        n_exec[0] += 1
        # every candidate in its own forked child: a candidate must not see what earlier ones left behind
        try:
            return forked(_same_after, mod, prelude, p, t, sig)
        except RuntimeError:
            return None

    plan = json.loads(json.dumps(plan))
    improved = True
    while improved and time.time() - t0 < budget_s:
        improved = False
        # 1. delete ops (chunks, then singles)
        ops = plan.get("ops", [])
        size = max(1, len(ops) // 2)
        while size >= 1:
            i = 0
            while i < len(plan["ops"]):
                cand = dict(plan)
                cand["ops"] = plan["ops"][:i] + plan["ops"][i + size:]
                t2 = ok(cand, tape)
                if t2 is not None:
                    plan, tape = cand, t2
                    improved = True
                else:
                    i += size
            size //= 2
        # 2. property-specific simplifications
        if hasattr(mod, "shrink_plan"):
            progress = True
            while progress and time.time() - t0 < budget_s:
                progress = False
                for cand in mod.shrink_plan(plan):
                    t2 = ok(cand, tape)
                    if t2 is not None:
                        plan, tape = cand, t2
                        progress = True
                        improved = True
                        break
        # 3. run-time tape: truncate, then zero entries
        while tape and tape[-1] == 0:
            tape = tape[:-1]
        for cut in (len(tape) // 2, len(tape) * 3 // 4):
            t2 = ok(plan, tape[:cut])
            if t2 is not None and len(t2) < len(tape):
                tape = t2
                improved = True
        i = 0
        while i < len(tape) and time.time() - t0 < budget_s:
            if tape[i] != 0:
                cand = tape[:i] + [0] + tape[i + 1:]
                t2 = ok(plan, cand)
                if t2 is not None:
                    tape = t2
                    improved = improved or False
            i += 1
        while tape and tape[-1] == 0:
            tape = tape[:-1]
    return plan, tape, n_exec[0]


# ------------------------------------------------------------------ known findings

def load_known():
    p = os.path.join(VERIF_DIR, "known_findings.json")
    if not os.path.exists(p):
        return []
    with open(p) as f:
        return json.load(f).get("findings", [])


def known_open(pid):
    return {e["signature"]: e for e in load_known()
            if e.get("property") == pid and e.get("status") == "open"}


# ------------------------------------------------------------------ replay files

def write_replay(pid, run_seed, plan, tape, sig, msg, note="", prelude=None):
    d = os.path.join(VERIF_DIR, "replays")
    os.makedirs(d, exist_ok=True)
    name = "%s-%s-%d.json" % (pid, hashlib.blake2b(sig.encode(), digest_size=4).hexdigest(), run_seed)
    path = os.path.join(d, name)
    mod = load(pid)
    decoded = None
    if hasattr(mod, "describe"):
        try:
            decoded = mod.describe(plan)
        except Exception:
            decoded = None
    with open(path, "w") as f:
        doc = {"property": pid, "run_seed": run_seed, "violation": {"signature": sig, "message": msg},
               "plan": plan, "tape": tape, "decoded_ops": decoded, "note": note}
        if prelude:
            doc["prelude"] = prelude
            doc["prelude_note"] = ("earlier runs of the same process, executed first (each from its plan and "
                                   "Tape(run_seed ^ SCHED_SALT)): the violation depends on state kept across them")
            if hasattr(mod, "describe"):
                try:
                    doc["decoded_prelude"] = [mod.describe(pr["plan"]) for pr in prelude]
                except Exception:
                    pass
        json.dump(doc, f, indent=1)
    return path


def replay(pid, path, quiet=False):
    import warnings
    warnings.simplefilter("ignore")
    with open(path) as f:
        rp = json.load(f)
    mod = load(pid)
    run_prelude(mod, rp.get("prelude"))
    r = run_once(mod, rp["plan"], rp["tape"])
    want = rp.get("violation", {}).get("signature")
    if r[0] == "viol":
        if not quiet:
            print("replay: violation %s: %s" % (r[1], r[2]))
        if r[1] in known_open(pid):
            print("KNOWN-FINDING: property=%s %s (%s)" % (pid, r[1], known_open(pid)[r[1]].get("what", "")[:160]))
            return 0
        print("VIOLATION property=%s replay=%s" % (pid, path))
        if want and r[1] != want:
            print("note: signature differs from the recorded one (%s)" % want)
        return 1
    print("replay: property held on this replay (recorded signature: %s)" % want)
    return 0


# ------------------------------------------------------------------ main sweep

def _ensure_env():
    """re-exec once with a fixed hash seed and /repo first on the path"""
    want_pp = os.environ.get("VERIF_REPO", "/repo") + os.pathsep + VERIF_DIR
    if os.environ.get("PYTHONHASHSEED") is None or os.environ.get("DSIM_REEXEC") != "1":
        env = dict(os.environ)
        env.setdefault("PYTHONHASHSEED", "0")
        env["DSIM_REEXEC"] = "1"
        env.setdefault("PYTHONWARNINGS", "ignore")
        env["PYTHONPATH"] = want_pp + (os.pathsep + env["PYTHONPATH"] if env.get("PYTHONPATH") else "")
        env.pop("PYTHONDONTWRITEBYTECODE", None)
        env["PYTHONPYCACHEPREFIX"] = os.path.join(VERIF_DIR, ".pycache")
        os.execve(sys.executable, [sys.executable] + sys.argv, env)


def sweep(pid, tier, base_seed, runs=None, jobs=None, budget_s=None, write_evidence=True,
          quiet=False):
    mod = load(pid)
    cfg = dict(mod.TIERS[tier])
    cfg["tier"] = tier
    if runs is None:
        runs = cfg["runs"]
    if os.environ.get("VERIF_RUNS"):
        runs = int(os.environ["VERIF_RUNS"])
    if budget_s is None:
        budget_s = float(os.environ.get("VERIF_BUDGET_S", cfg.get("budget_s", 600)))
    jobs = jobs or int(os.environ.get("VERIF_JOBS", min(16, os.cpu_count() or 1)))
    t0 = time.time()
    print("check %s tier=%s VERIF_SEED=%d runs=%d jobs=%d budget_s=%.0f" %
          (pid, tier, base_seed, runs, jobs, budget_s))
    sys.stdout.flush()

    # batch boundaries must not depend on the worker count (sweep digests are compared across job counts)
    batch = cfg.get("batch", 250)
    tasks = []
    k = 0
    while k < runs:
        tasks.append((pid, base_seed, k, min(runs, k + batch), cfg, cfg.get("batch_wall_cap", 1500)))
        k += batch

    total = {"runs": 0, "nontrivial": 0, "digests": set(), "probes": {}, "faults": {},
             "sim_time": 0.0, "steps": 0, "samples": [], "viol": [], "all": [], "verdicts": []}
    err = None
    stopped_early = False
    ctx = multiprocessing.get_context("fork")
    with ProcessPoolExecutor(max_workers=jobs, mp_context=ctx) as ex:
        pending = set()
        it = iter(tasks)
        order = {}
        try:
            for _ in range(jobs * 2):
                t = next(it, None)
                if t is None:
                    break
                fu = ex.submit(_worker, t)
                order[fu] = t[2]
                pending.add(fu)
            while pending:
                done, pending = wait(pending, timeout=5, return_when=FIRST_COMPLETED)
                for fu in done:
                    agg = fu.result()
                    if agg.get("err"):
                        err = agg["err"]
                        break
                    total["runs"] += agg["runs"]
                    total["nontrivial"] += agg["nontrivial"]
                    total["digests"] |= agg["digests"]
                    for n, c in agg["probes"].items():
                        total["probes"][n] = total["probes"].get(n, 0) + c
                    for n, c in agg["faults"].items():
                        total["faults"][n] = total["faults"].get(n, 0) + c
                    total["sim_time"] += agg["sim_time"]
                    total["steps"] += agg["steps"]
                    if len(total["samples"]) < 3:
                        total["samples"] += agg["samples"]
                    total["viol"] += agg["viol"]
                    total["all"].append((order[fu], agg["all_digest"]))
                    total["verdicts"].append((order[fu], agg["verdict_digest"]))
                if err:
                    break
                over = time.time() - t0 > budget_s
                if over:
                    stopped_early = True
                if os.environ.get("VERIF_STOP_AT_FIRST") == "1" and any("plan" in v for v in total["viol"]) \
                        and any(v["sig"] not in known_open(pid) for v in total["viol"]):
                    # (sensitivity runs only: one reproducible violation is all that is asked for)
                    over = True
                    stopped_early = True
                while not over and len(pending) < jobs * 2:
                    t = next(it, None)
                    if t is None:
                        break
                    fu = ex.submit(_worker, t)
                    order[fu] = t[2]
                    pending.add(fu)
        except Exception:
            err = traceback.format_exc()
        if err:
            for fu in pending:
                fu.cancel()
    if err:
        print("HARNESS-ERROR property=%s\n%s" % (pid, err))
        return 2

    wall = time.time() - t0
    sweep_digest = digest_of(sorted(total["all"]))
    verdict_digest = digest_of(sorted(total["verdicts"]))

    # ---- violations: group by signature, minimise, write replay, classify
    exit_code = 0
    known = known_open(pid)
    by_sig = {}
    for v in total["viol"]:
        by_sig.setdefault(v["sig"], []).append(v)
    reported = []
    known_matched = []
    unreproducible = []
    for sig in sorted(by_sig):
        vs = by_sig[sig]
        full = [v for v in vs if "plan" in v]
        v = min(full, key=lambda x: len(json.dumps(x["plan"]))) if full else None
        if sig in known:
            print("KNOWN-FINDING: property=%s %s (%s) [%d runs]" %
                  (pid, sig, known[sig].get("what", "")[:160], len(vs)))
            known_matched.append({"signature": sig, "runs": len(vs)})
            continue
        if v is None:
            continue
        def fresh_replay(path):
            return subprocess.run([sys.executable, os.path.join(VERIF_DIR, "check"), pid, "--replay", path, "--quiet"],
                                  capture_output=True, text=True, timeout=600)
        # this process executes no plan itself: every minimisation candidate runs in a forked child
        plan, tape, n_exec = shrink(mod, v["plan"], v["tape"], sig, budget_s=cfg.get("shrink_budget_s", 25.0))
        path = write_replay(pid, v["run_seed"], plan, tape, sig, v["msg"],
                            note="minimised with %d executions; %d runs of this sweep hit this signature"
                                 % (n_exec, len(vs)))
        # replay in a fresh interpreter must reproduce the same signature
        rc = fresh_replay(path)
        if "VIOLATION property=%s" % pid not in rc.stdout and "k0" in v:
            # depends on the earlier runs of its batch (state kept across environments in the process)
            prelude = []
            for j in range(v["k0"], v["k"]):
                rsj = run_seed_of(base_seed, j)
                prelude.append({"run_seed": rsj, "plan": generate(mod, rsj, cfg)})
            small, n1 = shrink_history(mod, prelude, v["plan"], v["tape"], sig,
                                       budget_s=cfg.get("shrink_budget_s", 25.0) * 3)
            if small is not None:
                plan, tape, n2 = shrink(mod, v["plan"], v["tape"], sig, budget_s=cfg.get("shrink_budget_s", 25.0),
                                        max_exec=300, prelude=small)
                for pre, pl, tp in ((small, plan, tape), (small, v["plan"], v["tape"]), (prelude, v["plan"], v["tape"])):
                    path = write_replay(pid, v["run_seed"], pl, tp, sig, v["msg"], prelude=pre,
                                        note="depends on %d earlier run(s) of the same process; minimised with %d executions; "
                                             "%d runs of this sweep hit this signature" % (len(pre), n1 + n2, len(vs)))
                    rc = fresh_replay(path)
                    if "VIOLATION property=%s" % pid in rc.stdout:
                        break
        if "VIOLATION property=%s" % pid not in rc.stdout:
            # never report what cannot be replayed; keep looking at the other signatures
            print("HARNESS-WARNING property=%s signature %s: replay %s did not reproduce in a fresh process "
                  "(not reported as a violation):\n%s%s" % (pid, sig, path, rc.stdout[-400:], rc.stderr[-400:]))
            unreproducible.append(sig)
            continue
        print("violation %s: %s" % (sig, v["msg"]))
        print("VIOLATION property=%s replay=%s" % (pid, path))
        reported.append({"signature": sig, "runs": len(vs), "replay": path})
        exit_code = 1

    if unreproducible and not reported:
        print("HARNESS-ERROR property=%s: %d violation signature(s) seen in the sweep could not be replayed: %s"
              % (pid, len(unreproducible), unreproducible))
        exit_code = 2

    if write_evidence:
        samples = total["samples"][:3]
        if not samples:
            samples = [{"note": "no non-trivial run in this sweep"}]
        ev = {
            "property_id": pid, "tier": tier, "seed": base_seed, "level": mod.LEVEL,
            "coverage": {
                "evaluations": total["runs"],
                "distinct_nontrivial": len(total["digests"]),
                "rule": mod.RULE,
                "samples": samples,
                "nontrivial_runs": total["nontrivial"],
                "runs_per_hour": int(total["runs"] / wall * 3600) if wall > 0 else 0,
                "run_seeds": {"first": run_seed_of(base_seed, 0),
                              "last": run_seed_of(base_seed, max(0, total["runs"] - 1)),
                              "formula": "VERIF_SEED*1000003 + k"},
                "sim_time_s": round(total["sim_time"], 3),
                "sim_steps": total["steps"],
                "faults_fired": dict(sorted(total["faults"].items())),
                "probes": dict(sorted(total["probes"].items())),
                "components": mod.COMPONENTS,
                "known_findings_matched": known_matched,
                "violations_reported": reported,
                "sweep_digest": sweep_digest,
                "verdict_digest": verdict_digest,
                "stopped_early_on_budget": stopped_early,
                "jobs": jobs,
            },
            "assumptions": list(mod.ASSUMPTIONS),
            "wall_s": round(wall, 2),
            "violations": len(reported),
        }
        d = os.path.join(VERIF_DIR, "evidence")
        os.makedirs(d, exist_ok=True)
        with open(os.path.join(d, "%s.json" % pid), "w") as f:
            json.dump(ev, f, indent=1, sort_keys=True)

    print("%s: %d runs (%d non-trivial, %d distinct) in %.1fs, %d violation signature(s), "
          "%d known; sweep_digest=%s verdict_digest=%s" %
          (pid, total["runs"], total["nontrivial"], len(total["digests"]), wall,
           len(reported), len(known_matched), sweep_digest, verdict_digest))
    return exit_code


def main(argv):
    import argparse
    ap = argparse.ArgumentParser(prog="check")
    ap.add_argument("pid")
    ap.add_argument("--tier", default=os.environ.get("VERIF_TIER", "quick"),
                    choices=["quick", "thorough"])
    ap.add_argument("--replay")
    ap.add_argument("--runs", type=int)
    ap.add_argument("--jobs", type=int)
    ap.add_argument("--budget", type=float)
    ap.add_argument("--quiet", action="store_true")
    ap.add_argument("--no-evidence", action="store_true")
    ap.add_argument("--one", type=int, help="execute the single run with this run_seed and print it")
    a = ap.parse_args(argv)
    pid = a.pid.upper()
    if a.replay:
        return replay(pid, a.replay, quiet=a.quiet)
    if a.one is not None:
        mod = load(pid)
        cfg = dict(mod.TIERS[a.tier]); cfg["tier"] = a.tier
        plan = generate(mod, a.one, cfg)
        r = run_once(mod, plan, Tape(a.one ^ SCHED_SALT))
        print(json.dumps({"plan": plan, "result": r[0], "info": r[1] if r[0] == "ok" else r[1:3]},
                         indent=1, default=str))
        return 0 if r[0] == "ok" else 1
    seed = int(os.environ.get("VERIF_SEED", "0") or 0)
    return sweep(pid, a.tier, seed, runs=a.runs, jobs=a.jobs, budget_s=a.budget,
                 write_evidence=not a.no_evidence, quiet=a.quiet)
