"""Strict reference SMT-LIB 2.6 solver (command interpreter + finite-domain
brute force).  An independent reading of the standard; shares no code with
pySMT.  It is the peer of the real SmtLibSolver in C17 / C19.

* assertion levels hold assertions AND declarations; pop removes both;
  reset-assertions drops every level and (global-declarations false) every
  user declaration  (calibrated against cvc5 1.0; z3 4.8 keeps declarations);
* every sort / symbol must be declared before use and not re-declared while in
  scope; arities and widths must match; let is parallel;
* check-sat enumerates the declared finite-domain constants; the model it
  reports is chosen by the tape among all models;
* every protocol breach is recorded in .illegal (cmd#, reason) in addition to
  the (error "...") reply, so oracles do not depend on how the client reacts.
"""
import itertools

from dsim.sexpr import Reader, SexprError, Sym, Num, Dec, Bin, Str, Kw, show
from dsim.bp import _signed, _mask, _udiv, _urem, _neg, _sdiv, _srem

BOOL = ("Bool",)
INT = ("Int",)


def BVS(w):
    return ("BV", w)


class Illegal(Exception):
    pass


class Unsupported(Exception):
    pass


RESERVED = {"let", "forall", "exists", "as", "_", "!", "par", "true", "false", "not", "and", "or",
            "xor", "=>", "=", "distinct", "ite", "Bool", "Int", "Real", "BitVec", "Array"}


BUILTIN_OPS = {"not", "and", "or", "xor", "=>", "=", "distinct", "ite", "+", "-", "*", "<=", "<", ">=", ">",
               "div", "mod", "abs", "concat", "bvnot", "bvneg", "bvand", "bvor", "bvxor", "bvnand", "bvnor",
               "bvxnor", "bvadd", "bvsub", "bvmul", "bvudiv", "bvurem", "bvsdiv", "bvsrem", "bvsmod", "bvshl",
               "bvlshr", "bvashr", "bvcomp", "bvult", "bvule", "bvugt", "bvuge", "bvslt", "bvsle", "bvsgt",
               "bvsge", "to_real", "to_int", "select", "store"}


class Level(object):
    __slots__ = ("sorts", "funs", "asserts")

    def __init__(self):
        self.sorts = {}
        self.funs = {}      # name -> (arg sorts tuple, result sort)
        self.asserts = []   # (source, fn)


def _smod(a, b, w):
    # SMT-LIB bvsmod
    sa, sb = a >> (w - 1), b >> (w - 1)
    abs_a = _neg(a, w) if sa else a
    abs_b = _neg(b, w) if sb else b
    u = _urem(abs_a, abs_b, w)
    if u == 0:
        return 0
    if not sa and not sb:
        return u
    if sa and not sb:
        return (_neg(u, w) + b) & _mask(w)
    if not sa and sb:
        return (u + b) & _mask(w)
    return _neg(u, w)


class RefSolver(object):
    def __init__(self, tape=None, profile=None):
        self.tape = tape
        self.profile = dict(profile or {})
        self.reader = Reader()
        self.print_success = False
        self.produce_models = False
        self.logic = None
        self.levels = [Level()]
        self.cmd_no = 0
        self.illegal = []
        self.log = []          # dict(no, src, reply, name)
        self.model = None      # name -> value, valid in sat mode
        self.mode = "start"    # start | assert | sat | unsat | unknown
        self.dead = False
        self.exited = False
        self.n_checks = 0
        self.counts = {}
        self.faults_fired = {}
        self.last_model_count = None
        self.usort_card = self.profile.get("usort_card", 2)
        self.max_rows = self.profile.get("max_rows", 4096)

    # ------------------------------------------------------------ scope
    def depth(self):
        return len(self.levels) - 1

    def find_sort(self, name):
        for lv in self.levels:
            if name in lv.sorts:
                return lv.sorts[name]
        return None

    def find_fun(self, name):
        for lv in self.levels:
            if name in lv.funs:
                return lv.funs[name]
        return None

    def live_asserts(self):
        return [a for lv in self.levels for a in lv.asserts]

    def live_consts(self):
        out = []
        for lv in self.levels:
            for n, (args, res) in lv.funs.items():
                if not args:
                    out.append((n, res))
        return out

    # ------------------------------------------------------------ I/O
    def feed(self, text):
        """consume client text; returns list of reply strings (each newline-terminated)"""
        replies = []
        if self.dead or self.exited:
            return replies
        self.reader.feed(text)
        while not self.dead and not self.exited:
            try:
                nx = self.reader.next()
            except SexprError as ex:
                self.cmd_no += 1
                self._illegal("malformed input: %s" % ex)
                self.reader.buf = ""
                replies.append('(error "parse error")\n')
                break
            if nx is None:
                break
            sx, src = nx
            self.cmd_no += 1
            r = self._command(sx, src)
            if r is not None:
                replies.append(r + "\n")
        return replies

    def _illegal(self, why):
        self.illegal.append((self.cmd_no, why))

    def _fire(self, k):
        self.faults_fired[k] = self.faults_fired.get(k, 0) + 1

    # ------------------------------------------------------------ commands
    def _command(self, sx, src):
        name = sx[0].name if isinstance(sx, list) and sx and isinstance(sx[0], Sym) else None
        entry = {"no": self.cmd_no, "src": src, "name": name, "reply": None}
        self.log.append(entry)
        self.counts[name] = self.counts.get(name, 0) + 1
        # ---- injected faults (decided by the profile drawn at run start)
        pf = self.profile
        nth = self.counts[name]
        dbn = pf.get("die_before_name")
        if dbn and dbn[0] == name and dbn[1] == nth:
            self._fire("die_before_reply")
            self.dead = True
            return None
        ean = pf.get("error_at_name")
        if ean and ean[0] == name and ean[1] == nth:
            self._fire("error_reply")
            entry["reply"] = '(error "injected failure")'
            entry["injected"] = True
            return entry["reply"]
        if pf.get("die_before_cmd") == self.cmd_no:
            self._fire("die_before_reply")
            self.dead = True
            return None
        if pf.get("error_at_cmd") == self.cmd_no and name not in ("exit", "set-option"):
            self._fire("error_reply")
            entry["reply"] = '(error "injected failure")'
            entry["injected"] = True
            return entry["reply"]
        try:
            if name is None:
                raise Illegal("not a command: %s" % show(sx)[:60])
            reply = self._dispatch(name, sx)
        except Illegal as ex:
            self._illegal("%s: %s" % (name, ex))
            reply = '(error "%s")' % str(ex).replace('"', "'")[:120]
        except Unsupported:
            reply = "unsupported"
        entry["reply"] = reply
        if pf.get("die_after_cmd") == self.cmd_no:
            self._fire("die_after_reply")
            self.dead = True
        dan = pf.get("die_after_name")
        if dan and dan[0] == name and dan[1] == nth:
            # the process exits right after this reply: the peer's NEXT write meets a closed pipe
            self._fire("die_after_reply")
            self.dead = True
        return reply

    def _ok(self):
        return "success" if self.print_success else None

    def _dispatch(self, name, sx):
        if name == "set-option":
            if len(sx) != 3 or not isinstance(sx[1], Kw):
                raise Illegal("malformed set-option")
            opt = sx[1].name
            val = sx[2]
            if opt == ":print-success":
                if not isinstance(val, Sym) or val.name not in ("true", "false"):
                    raise Illegal("print-success expects a boolean")
                self.print_success = val.name == "true"
            elif opt == ":produce-models":
                if self.mode != "start" and False:
                    raise Illegal("produce-models after start")
                self.produce_models = isinstance(val, Sym) and val.name == "true"
            elif opt == ":global-declarations":
                raise Unsupported()
            elif opt == ":only-member":
                # an option that only one particular solver of a portfolio understands
                if str(getattr(val, "name", val)) != str(self.profile.get("member_tag")):
                    self.faults_fired["foreign_option"] = self.faults_fired.get("foreign_option", 0) + 1
                    raise Unsupported()
            return self._ok()
        if name == "set-info":
            return self._ok()
        if name == "set-logic":
            if len(sx) != 2 or not isinstance(sx[1], Sym):
                raise Illegal("malformed set-logic")
            if self.logic is not None:
                raise Illegal("set-logic given twice")
            if self.mode != "start":
                raise Illegal("set-logic after declarations or assertions")
            self.logic = sx[1].name
            return self._ok()
        if name == "exit":
            self.exited = True
            return self._ok()
        if name in ("declare-sort", "declare-fun", "declare-const", "define-fun", "push", "pop",
                    "assert", "check-sat", "get-value", "get-model", "reset-assertions",
                    "check-sat-assuming", "reset"):
            if self.logic is None:
                raise Illegal("%s before set-logic" % name)
        if name == "declare-sort":
            if len(sx) != 3 or not isinstance(sx[1], Sym) or not isinstance(sx[2], Num):
                raise Illegal("malformed declare-sort")
            n = sx[1].name
            if n in RESERVED or self.find_sort(n) is not None:
                raise Illegal("sort %s already declared in scope" % n)
            if sx[2].value != 0:
                raise Unsupported()
            self.levels[-1].sorts[n] = ("S", n)
            self._state_change()
            return self._ok()
        if name in ("declare-fun", "declare-const"):
            if name == "declare-fun":
                if len(sx) != 4 or not isinstance(sx[1], Sym) or not isinstance(sx[2], list):
                    raise Illegal("malformed declare-fun")
                args, res = sx[2], sx[3]
            else:
                if len(sx) != 3 or not isinstance(sx[1], Sym):
                    raise Illegal("malformed declare-const")
                args, res = [], sx[2]
            n = sx[1].name
            if (n in RESERVED and not sx[1].quoted) or self.find_fun(n) is not None:
                raise Illegal("symbol %s already declared in scope" % n)
            asorts = tuple(self._sort(a) for a in args)
            rsort = self._sort(res)
            self.levels[-1].funs[n] = (asorts, rsort)
            self._state_change()
            return self._ok()
        if name in ("push", "pop"):
            if len(sx) == 1:
                k = 1
            elif len(sx) == 2 and isinstance(sx[1], Num):
                k = sx[1].value
            else:
                raise Illegal("malformed %s" % name)
            if name == "push":
                for _ in range(k):
                    self.levels.append(Level())
            else:
                if k > self.depth():
                    raise Illegal("pop %d at assertion level %d" % (k, self.depth()))
                for _ in range(k):
                    self.levels.pop()
            self._state_change()
            return self._ok()
        if name == "assert":
            if len(sx) != 2:
                raise Illegal("malformed assert")
            sort, fn = self._compile(sx[1], {})
            if sort != BOOL:
                raise Illegal("asserted term has sort %s" % (sort,))
            self.levels[-1].asserts.append((show(sx[1]), fn, _symbols_in(sx[1])))
            self._state_change()
            return self._ok()
        if name == "reset-assertions":
            self.levels = [Level()]
            self._state_change()
            return self._ok()
        if name == "check-sat":
            if len(sx) != 1:
                raise Illegal("malformed check-sat")
            return self._check_sat()
        if name == "get-value":
            if len(sx) != 2 or not isinstance(sx[1], list) or not sx[1]:
                raise Illegal("malformed get-value")
            if self.mode != "sat":
                raise Illegal("get-value outside sat mode (mode %s)" % self.mode)
            if not self.produce_models:
                raise Illegal("get-value without :produce-models")
            out = []
            pretty = self.profile.get("value_layout", "one-line") == "pretty"
            for t in sx[1]:
                sort, fn = self._compile(t, {})
                v = fn(self.model, {})
                out.append(("(%s\n   %s)" if pretty else "(%s %s)") % (show(t), self._value(v, sort)))
            if pretty:
                # like z3 / cvc5 for long terms: the reply spans several lines
                self.faults_fired["multiline_reply"] = self.faults_fired.get("multiline_reply", 0) + 1
                return "(" + "\n ".join(out) + ")"
            return "(" + " ".join(out) + ")"
        if name == "get-model":
            if self.mode != "sat":
                raise Illegal("get-model outside sat mode")
            out = []
            for n, s in self.live_consts():
                out.append("(define-fun %s () %s %s)" % (repr(Sym(n, not _simple(n))), self._sort_str(s),
                                                         self._value(self.model[n], s)))
            return "(" + " ".join(out) + ")"
        if name in ("define-fun", "define-sort", "check-sat-assuming", "get-unsat-core", "get-proof",
                    "get-assertions", "get-assignment", "get-info", "get-option", "echo", "reset",
                    "declare-datatype", "declare-datatypes", "define-fun-rec", "define-funs-rec",
                    "get-unsat-assumptions"):
            raise Unsupported()
        raise Illegal("unknown command %s" % name)

    def _state_change(self):
        if self.mode == "start" or self.mode in ("sat", "unsat", "unknown"):
            self.mode = "assert"
        self.model = None

    # ------------------------------------------------------------ solving
    def _domain(self, sort):
        if sort == BOOL:
            return [False, True]
        if sort[0] == "BV":
            if sort[1] > 6:
                return None
            return list(range(1 << sort[1]))
        if sort[0] == "S":
            return list(range(self.usort_card))
        if sort[0] == "Array":
            di, de = self._domain(sort[1]), self._domain(sort[2])
            if di is None or de is None or len(de) ** len(di) > 256:
                return None
            # the tuple of the elements, indexed by int(index value)
            return list(itertools.product(de, repeat=len(di)))
        return None

    def _check_sat(self):
        self.n_checks += 1
        pf = self.profile
        if self.n_checks in pf.get("unknown_at_check", ()):
            self._fire("unknown")
            self.mode = "unknown"
            self.model = None
            return "unknown"
        # Only symbols that occur in a live assertion span the search space; a symbol that is
        # merely declared is unconstrained and takes the first value of its domain (so that how
        # much was declared - e.g. by a call that failed after its declarations - never decides
        # whether the search space is within the row limit).
        used = set()
        for a in self.live_asserts():
            used |= a[2]
        defaults = {}
        consts = []
        for n, s in self.live_consts():
            if n in used:
                consts.append((n, s))
            else:
                d0 = self._domain(s)
                if d0 is None:
                    self.mode = "unknown"
                    return "unknown"
                defaults[n] = d0[0]
        doms = []
        rows = 1
        for n, s in consts:
            d = self._domain(s)
            if d is None:
                self.mode = "unknown"
                return "unknown"
            doms.append(d)
            rows *= len(d)
            if rows > self.max_rows:
                self.mode = "unknown"
                return "unknown"
        # uninterpreted functions: one pseudo-constant per argument tuple (a function table)
        names = [n for n, _ in consts]
        for lv in self.levels:
            for n, (args, res) in lv.funs.items():
                if not args:
                    continue
                if n not in used:
                    adoms0 = [self._domain(a) for a in args]
                    rdom0 = self._domain(res)
                    if rdom0 is None or any(d is None for d in adoms0):
                        self.mode = "unknown"
                        return "unknown"
                    for tup in itertools.product(*adoms0):
                        defaults[(n, tup)] = rdom0[0]
                    continue
                adoms = [self._domain(a) for a in args]
                rdom = self._domain(res)
                if rdom is None or any(d is None for d in adoms):
                    self.mode = "unknown"
                    return "unknown"
                for tup in itertools.product(*adoms):
                    names.append((n, tup))
                    doms.append(rdom)
                    rows *= len(rdom)
                    if rows > self.max_rows:
                        self.mode = "unknown"
                        return "unknown"
        fns = [a[1] for a in self.live_asserts()]
        models = []
        for vals in itertools.product(*doms):
            m = dict(defaults)
            m.update(zip(names, vals))
            ok = True
            for fn in fns:
                if not fn(m, {}):
                    ok = False
                    break
            if ok:
                models.append(m)
        self.last_model_count = len(models)
        if not models:
            self.mode = "unsat"
            self.model = None
            return "unsat"
        self.mode = "sat"
        pol = pf.get("model_policy", "uniform")
        if pol == "first" or len(models) == 1 or self.tape is None:
            self.model = models[0]
        elif pol == "last":
            self.model = models[-1]
        else:
            self.model = models[self.tape.draw(len(models), "ref.model")]
        return "sat"

    # ------------------------------------------------------------ sorts / values
    def _sort(self, sx):
        if isinstance(sx, Sym):
            if sx.name == "Bool":
                return BOOL
            if sx.name == "Int":
                return INT
            s = self.find_sort(sx.name)
            if s is None:
                raise Illegal("unknown sort %s" % sx.name)
            return s
        if isinstance(sx, list) and len(sx) == 3 and sx[0] == Sym("_") and sx[1] == Sym("BitVec") \
                and isinstance(sx[2], Num) and sx[2].value > 0:
            return BVS(sx[2].value)
        if isinstance(sx, list) and len(sx) == 3 and sx[0] == Sym("Array"):
            return ("Array", self._sort(sx[1]), self._sort(sx[2]))
        raise Illegal("unknown sort %s" % show(sx))

    def _sort_str(self, s):
        if s == BOOL:
            return "Bool"
        if s == INT:
            return "Int"
        if s[0] == "BV":
            return "(_ BitVec %d)" % s[1]
        if s[0] == "Array":
            return "(Array %s %s)" % (self._sort_str(s[1]), self._sort_str(s[2]))
        return repr(Sym(s[1], not _simple(s[1])))

    def _value(self, v, sort):
        if sort == BOOL:
            return "true" if v else "false"
        if sort == INT:
            return str(v) if v >= 0 else "(- %d)" % (-v)
        if sort[0] == "BV":
            return "#b" + format(v, "0%db" % sort[1])
        if sort[0] == "Array":
            di = self._domain(sort[1])
            out = "((as const %s) %s)" % (self._sort_str(sort), self._value(v[0], sort[2]))
            for pos in range(1, len(v)):
                if v[pos] != v[0]:
                    out = "(store %s %s %s)" % (out, self._value(di[pos], sort[1]), self._value(v[pos], sort[2]))
            return out
        return "(as @%s_%d %s)" % (sort[1], v, self._sort_str(sort))

    # ------------------------------------------------------------ term compiler
    def _compile(self, t, bound):
        """-> (sort, fn(model, lets) -> value); bound: name -> sort of let variables"""
        if isinstance(t, Bin):
            v = t.value
            return BVS(t.width), (lambda m, l: v)
        if isinstance(t, Num):
            v = t.value
            return INT, (lambda m, l: v)
        if isinstance(t, (Dec, Str)):
            raise Unsupported()
        if isinstance(t, Sym):
            n = t.name
            if n in bound:
                return bound[n], (lambda m, l: l[n])
            if not t.quoted:
                if n == "true":
                    return BOOL, (lambda m, l: True)
                if n == "false":
                    return BOOL, (lambda m, l: False)
            f = self.find_fun(n)
            if f is None:
                raise Illegal("symbol %s used but not declared in scope" % n)
            if f[0]:
                raise Illegal("function symbol %s used as a constant" % n)
            return f[1], (lambda m, l: m[n])
        if not isinstance(t, list) or not t:
            raise Illegal("malformed term %s" % show(t))
        head = t[0]
        # ---- binders
        if head == Sym("let") and not head.quoted:
            if len(t) != 3 or not isinstance(t[1], list) or not t[1]:
                raise Illegal("malformed let")
            names, comp = [], []
            for b in t[1]:
                if not isinstance(b, list) or len(b) != 2 or not isinstance(b[0], Sym):
                    raise Illegal("malformed let binding")
                if b[0].name in names:
                    raise Illegal("duplicate let variable %s" % b[0].name)
                names.append(b[0].name)
                comp.append(self._compile(b[1], bound))      # parallel: outer scope
            b2 = dict(bound)
            for n, (s, _) in zip(names, comp):
                b2[n] = s
            bs, bf = self._compile(t[2], b2)
            fns = [f for _, f in comp]

            def run_let(m, l, names=names, fns=fns, bf=bf):
                l2 = dict(l)
                vals = [f(m, l) for f in fns]
                for n, v in zip(names, vals):
                    l2[n] = v
                return bf(m, l2)
            return bs, run_let
        if head == Sym("!") and not head.quoted:
            if len(t) < 2:
                raise Illegal("malformed annotation")
            return self._compile(t[1], bound)
        if head in (Sym("forall"), Sym("exists")) and not head.quoted:
            # quantifiers over finite sorts (Bool, small bit-vectors, declared sorts)
            if len(t) != 3 or not isinstance(t[1], list) or not t[1]:
                raise Illegal("malformed quantifier")
            qnames, qsorts = [], []
            for b in t[1]:
                if not isinstance(b, list) or len(b) != 2 or not isinstance(b[0], Sym):
                    raise Illegal("malformed sorted variable")
                if b[0].name in qnames:
                    raise Illegal("duplicate bound variable %s" % b[0].name)
                qnames.append(b[0].name)
                qsorts.append(self._sort(b[1]))
            qdoms = [self._domain(s_) for s_ in qsorts]
            if any(d is None for d in qdoms):
                raise Unsupported()
            b2 = dict(bound)
            b2.update(zip(qnames, qsorts))
            bs, bf = self._compile(t[2], b2)
            if bs != BOOL:
                raise Illegal("quantified term has sort %s" % (bs,))
            universal = head == Sym("forall")

            def run_q(m, l, qnames=qnames, qdoms=qdoms, bf=bf, universal=universal):
                for vals in itertools.product(*qdoms):
                    l2 = dict(l)
                    l2.update(zip(qnames, vals))
                    r = bf(m, l2)
                    if universal and not r:
                        return False
                    if not universal and r:
                        return True
                return universal
            return BOOL, run_q
        # ---- indexed operators  ((_ op i...) args)
        if isinstance(head, list):
            if len(head) >= 3 and head[0] == Sym("_") and isinstance(head[1], Sym) and \
                    all(isinstance(x, Num) for x in head[2:]):
                return self._indexed(head[1].name, [x.value for x in head[2:]], t[1:], bound)
            raise Illegal("malformed operator %s" % show(head))
        if head == Sym("_"):
            # (_ bvN w)
            if len(t) == 3 and isinstance(t[1], Sym) and t[1].name.startswith("bv") and \
                    t[1].name[2:].isdigit() and isinstance(t[2], Num):
                v, w = int(t[1].name[2:]), t[2].value
                if v >= (1 << w):
                    raise Illegal("bit-vector literal out of range")
                return BVS(w), (lambda m, l: v)
            raise Illegal("malformed indexed identifier %s" % show(t))
        if not isinstance(head, Sym):
            raise Illegal("malformed application %s" % show(t))
        args = [self._compile(a, bound) for a in t[1:]]
        return self._apply(head, args)

    def _indexed(self, op, idx, targs, bound):
        args = [self._compile(a, bound) for a in targs]
        if len(args) != 1 or args[0][0][0] != "BV":
            raise Illegal("(_ %s ...) expects one bit-vector argument" % op)
        (s, f) = args[0]
        w = s[1]
        if op == "extract":
            if len(idx) != 2:
                raise Illegal("extract needs two indices")
            hi, lo = idx
            if not (w > hi >= lo >= 0):
                raise Illegal("extract %d %d out of range for width %d" % (hi, lo, w))
            mm = _mask(hi - lo + 1)
            return BVS(hi - lo + 1), (lambda m, l: (f(m, l) >> lo) & mm)
        if len(idx) != 1:
            raise Illegal("(_ %s i) needs one index" % op)
        k = idx[0]
        if op == "zero_extend":
            return BVS(w + k), f
        if op == "sign_extend":
            mm = _mask(w + k)
            return BVS(w + k), (lambda m, l: _signed(f(m, l), w) & mm)
        if op in ("rotate_left", "rotate_right"):
            kk = k % w
            mm = _mask(w)
            if op == "rotate_left":
                return s, (lambda m, l: (lambda v: ((v << kk) | (v >> (w - kk))) & mm)(f(m, l)))
            return s, (lambda m, l: (lambda v: ((v >> kk) | (v << (w - kk))) & mm)(f(m, l)))
        if op == "repeat":
            if k < 1:
                raise Illegal("repeat 0")

            def rep(m, l):
                v = f(m, l)
                r = 0
                for _ in range(k):
                    r = (r << w) | v
                return r
            return BVS(w * k), rep
        raise Illegal("unknown indexed operator %s" % op)

    def _apply(self, head, args):
        op = head.name
        sorts = [s for s, _ in args]
        fs = [f for _, f in args]
        n = len(args)
        user = self.find_fun(op)
        if user is not None:
            if not user[0]:
                raise Illegal("constant %s applied to arguments" % op)
            if tuple(sorts) != tuple(user[0]):
                raise Illegal("function %s applied to sorts %s, declared with %s" % (op, sorts, user[0]))
            return user[1], (lambda m, l: m[(op, tuple(f(m, l) for f in fs))])
        if head.quoted:
            raise Illegal("symbol %s used but not declared in scope" % op)

        def need(cond, msg):
            if not cond:
                raise Illegal("%s: %s (argument sorts %s)" % (op, msg, sorts))

        if op == "select":
            need(n == 2 and sorts[0][0] == "Array" and sorts[1] == sorts[0][1], "expects an array and an index of its index sort")
            fa, fi = fs
            return sorts[0][2], (lambda m, l: fa(m, l)[int(fi(m, l))])
        if op == "store":
            need(n == 3 and sorts[0][0] == "Array" and sorts[1] == sorts[0][1] and sorts[2] == sorts[0][2],
                 "expects an array, an index and an element of its sorts")
            fa, fi, fv = fs

            def st(m, l):
                a = list(fa(m, l))
                a[int(fi(m, l))] = fv(m, l)
                return tuple(a)
            return sorts[0], st
        if op == "not":
            need(n == 1 and sorts[0] == BOOL, "expects one Bool")
            f = fs[0]
            return BOOL, (lambda m, l: not f(m, l))
        if op in ("and", "or", "xor", "=>"):
            need(n >= 2 and all(s == BOOL for s in sorts), "expects >= 2 Bool")
            if op == "and":
                return BOOL, (lambda m, l: all(f(m, l) for f in fs))
            if op == "or":
                return BOOL, (lambda m, l: any(f(m, l) for f in fs))
            if op == "xor":
                def xr(m, l):
                    r = False
                    for f in fs:
                        r = r != bool(f(m, l))
                    return r
                return BOOL, xr

            def imp(m, l):      # right associative
                vals = [f(m, l) for f in fs]
                r = vals[-1]
                for v in reversed(vals[:-1]):
                    r = (not v) or r
                return r
            return BOOL, imp
        if op == "=":
            need(n >= 2 and all(s == sorts[0] for s in sorts), "expects >= 2 arguments of one sort")

            def eq(m, l):
                vals = [f(m, l) for f in fs]
                return all(vals[i] == vals[i + 1] for i in range(len(vals) - 1))
            return BOOL, eq
        if op == "distinct":
            need(n >= 2 and all(s == sorts[0] for s in sorts), "expects >= 2 arguments of one sort")

            def dist(m, l):
                vals = [f(m, l) for f in fs]
                return len(set(vals)) == len(vals)
            return BOOL, dist
        if op == "ite":
            need(n == 3 and sorts[0] == BOOL and sorts[1] == sorts[2], "expects Bool, T, T")
            c, a, b = fs
            return sorts[1], (lambda m, l: a(m, l) if c(m, l) else b(m, l))
        # ---- Ints
        if op in ("+", "*") and n >= 2 and all(s == INT for s in sorts):
            if op == "+":
                return INT, (lambda m, l: sum(f(m, l) for f in fs))

            def mul(m, l):
                r = 1
                for f in fs:
                    r *= f(m, l)
                return r
            return INT, mul
        if op == "-" and n >= 1 and all(s == INT for s in sorts):
            if n == 1:
                f = fs[0]
                return INT, (lambda m, l: -f(m, l))

            def sub(m, l):
                vals = [f(m, l) for f in fs]
                r = vals[0]
                for v in vals[1:]:
                    r -= v
                return r
            return INT, sub
        if op in ("<=", "<", ">=", ">") and n >= 2 and all(s == INT for s in sorts):
            import operator
            cmp = {"<=": operator.le, "<": operator.lt, ">=": operator.ge, ">": operator.gt}[op]

            def chain(m, l):
                vals = [f(m, l) for f in fs]
                return all(cmp(vals[i], vals[i + 1]) for i in range(len(vals) - 1))
            return BOOL, chain
        # ---- bit-vectors
        if op == "concat":
            need(n == 2 and all(s[0] == "BV" for s in sorts), "expects two bit-vectors")
            a, b = fs
            w2 = sorts[1][1]
            return BVS(sorts[0][1] + w2), (lambda m, l: (a(m, l) << w2) | b(m, l))
        if op in ("bvnot", "bvneg"):
            need(n == 1 and sorts[0][0] == "BV", "expects one bit-vector")
            w = sorts[0][1]
            mm = _mask(w)
            f = fs[0]
            if op == "bvnot":
                return sorts[0], (lambda m, l: (~f(m, l)) & mm)
            return sorts[0], (lambda m, l: (-f(m, l)) & mm)
        bvbin = {"bvand", "bvor", "bvxor", "bvnand", "bvnor", "bvxnor", "bvadd", "bvsub", "bvmul",
                 "bvudiv", "bvurem", "bvsdiv", "bvsrem", "bvsmod", "bvshl", "bvlshr", "bvashr"}
        leftassoc = {"bvand", "bvor", "bvxor", "bvadd", "bvmul"}
        if op in bvbin:
            need(n >= 2 and sorts[0][0] == "BV" and all(s == sorts[0] for s in sorts),
                 "expects bit-vectors of one width")
            need(n == 2 or op in leftassoc, "expects exactly two arguments")
            w = sorts[0][1]
            mm = _mask(w)
            g = {
                "bvand": lambda x, y: x & y, "bvor": lambda x, y: x | y, "bvxor": lambda x, y: x ^ y,
                "bvnand": lambda x, y: (~(x & y)) & mm, "bvnor": lambda x, y: (~(x | y)) & mm,
                "bvxnor": lambda x, y: (~(x ^ y)) & mm,
                "bvadd": lambda x, y: (x + y) & mm, "bvsub": lambda x, y: (x - y) & mm,
                "bvmul": lambda x, y: (x * y) & mm,
                "bvudiv": lambda x, y: _udiv(x, y, w), "bvurem": lambda x, y: _urem(x, y, w),
                "bvsdiv": lambda x, y: _sdiv(x, y, w), "bvsrem": lambda x, y: _srem(x, y, w),
                "bvsmod": lambda x, y: _smod(x, y, w),
                "bvshl": lambda x, y: 0 if y >= w else (x << y) & mm,
                "bvlshr": lambda x, y: 0 if y >= w else x >> y,
                "bvashr": lambda x, y: (_signed(x, w) >> min(y, w)) & mm,
            }[op]

            def fold(m, l):
                vals = [f(m, l) for f in fs]
                r = vals[0]
                for v in vals[1:]:
                    r = g(r, v)
                return r
            return sorts[0], fold
        if op == "bvcomp":
            need(n == 2 and sorts[0][0] == "BV" and sorts[0] == sorts[1], "expects two equal-width bit-vectors")
            a, b = fs
            return BVS(1), (lambda m, l: 1 if a(m, l) == b(m, l) else 0)
        bvrel = {"bvult", "bvule", "bvugt", "bvuge", "bvslt", "bvsle", "bvsgt", "bvsge"}
        if op in bvrel:
            need(n == 2 and sorts[0][0] == "BV" and sorts[0] == sorts[1], "expects two equal-width bit-vectors")
            w = sorts[0][1]
            a, b = fs
            signed = op[2] == "s"
            kind = op[3:]

            def rel(m, l):
                x, y = a(m, l), b(m, l)
                if signed:
                    x, y = _signed(x, w), _signed(y, w)
                if kind == "lt":
                    return x < y
                if kind == "le":
                    return x <= y
                if kind == "gt":
                    return x > y
                return x >= y
            return BOOL, rel
        if op not in BUILTIN_OPS:
            raise Illegal("symbol %s used but not declared in scope" % op)
        raise Illegal("unknown or ill-sorted operator %s with argument sorts %s" % (op, sorts))


def _symbols_in(sx):
    """names of all symbols occurring in a term (over-approximation of its free symbols)"""
    out = set()
    stack = [sx]
    while stack:
        x = stack.pop()
        if isinstance(x, list):
            stack.extend(x)
        elif isinstance(x, Sym):
            out.add(x.name)
    return out


def _simple(name):
    import re
    return re.match(r"^[A-Za-z~!@$%^&*_+=<>.?/-][0-9A-Za-z~!@$%^&*_+=<>.?/-]*$", name) is not None
