"""Independent SMT-LIB 2.6 s-expression reader (shares no code with pySMT).

Atoms are returned as instances of small classes so the interpreter can tell a
quoted symbol from a simple one and a string literal from a symbol:
   Sym(name, quoted)  Num(int)  Dec(str)  Hex(value, width)  Bin(value, width)
   Str(text)  Kw(name)            lists are python lists
"""
import re


class SexprError(Exception):
    pass


class Sym(object):
    __slots__ = ("name", "quoted")

    def __init__(self, name, quoted=False):
        self.name = name
        self.quoted = quoted

    def __eq__(self, other):
        return isinstance(other, Sym) and other.name == self.name

    def __hash__(self):
        return hash(("Sym", self.name))

    def __repr__(self):
        return "|%s|" % self.name if self.quoted else self.name


class Num(object):
    __slots__ = ("value",)

    def __init__(self, v):
        self.value = v

    def __repr__(self):
        return str(self.value)


class Dec(object):
    __slots__ = ("text",)

    def __init__(self, t):
        self.text = t

    def __repr__(self):
        return self.text


class Bin(object):
    __slots__ = ("value", "width")

    def __init__(self, v, w):
        self.value, self.width = v, w

    def __repr__(self):
        return "#b" + format(self.value, "0%db" % self.width)


class Hex(Bin):
    def __repr__(self):
        return "#x" + format(self.value, "0%dx" % (self.width // 4))


class Str(object):
    __slots__ = ("text",)

    def __init__(self, t):
        self.text = t

    def __repr__(self):
        return '"%s"' % self.text.replace('"', '""')


class Kw(object):
    __slots__ = ("name",)

    def __init__(self, n):
        self.name = n

    def __eq__(self, other):
        return isinstance(other, Kw) and other.name == self.name

    def __hash__(self):
        return hash(("Kw", self.name))

    def __repr__(self):
        return self.name


_SIMPLE = re.compile(r"^[A-Za-z~!@$%^&*_+=<>.?/-][0-9A-Za-z~!@$%^&*_+=<>.?/-]*$")
_NUMERAL = re.compile(r"^(0|[1-9][0-9]*)$")
_DECIMAL = re.compile(r"^(0|[1-9][0-9]*)\.[0-9]+$")
_WS = " \t\r\n"


def _atom(tok):
    if tok.startswith(":"):
        if not _SIMPLE.match(tok[1:] or "x"):
            raise SexprError("bad keyword %r" % tok)
        return Kw(tok)
    if tok.startswith("#b"):
        if not re.match(r"^#b[01]+$", tok):
            raise SexprError("bad binary literal %r" % tok)
        return Bin(int(tok[2:], 2), len(tok) - 2)
    if tok.startswith("#x"):
        if not re.match(r"^#x[0-9a-fA-F]+$", tok):
            raise SexprError("bad hex literal %r" % tok)
        return Hex(int(tok[2:], 16), 4 * (len(tok) - 2))
    if _NUMERAL.match(tok):
        return Num(int(tok))
    if _DECIMAL.match(tok):
        return Dec(tok)
    if _SIMPLE.match(tok):
        return Sym(tok)
    raise SexprError("bad token %r" % tok)


class Reader(object):
    """incremental: feed(text) then pop complete top-level s-expressions"""

    def __init__(self):
        self.buf = ""

    def feed(self, text):
        self.buf += text

    def pending_garbage(self):
        return self.buf.strip() != ""

    def next(self):
        """returns (sexpr, source_text) or None if no complete expression is buffered"""
        s = self.buf
        n = len(s)
        i = 0
        # skip whitespace / comments
        while True:
            while i < n and s[i] in _WS:
                i += 1
            if i < n and s[i] == ";":
                j = s.find("\n", i)
                if j < 0:
                    return None
                i = j + 1
                continue
            break
        if i >= n:
            self.buf = ""
            return None
        start = i
        stack = []
        cur = None
        while i < n:
            c = s[i]
            if c in _WS:
                i += 1
                continue
            if c == ";":
                j = s.find("\n", i)
                if j < 0:
                    return None
                i = j + 1
                continue
            if c == "(":
                stack.append([])
                i += 1
                continue
            if c == ")":
                if not stack:
                    raise SexprError("unbalanced ')'")
                done = stack.pop()
                i += 1
                if not stack:
                    self.buf = s[i:]
                    return done, s[start:i]
                stack[-1].append(done)
                continue
            if c == "|":
                j = s.find("|", i + 1)
                if j < 0:
                    return None
                name = s[i + 1:j]
                if "\\" in name:
                    raise SexprError("backslash in quoted symbol")
                item = Sym(name, True)
                i = j + 1
            elif c == '"':
                j = i + 1
                out = []
                while True:
                    k = s.find('"', j)
                    if k < 0:
                        return None
                    out.append(s[j:k])
                    if k + 1 < n and s[k + 1] == '"':
                        out.append('"')
                        j = k + 2
                        continue
                    if k + 1 >= n and stack:
                        # cannot tell yet whether the quote is doubled
                        return None
                    break
                item = Str("".join(out))
                i = k + 1
            else:
                j = i
                while j < n and s[j] not in _WS and s[j] not in '()|";':
                    j += 1
                if j >= n and True:
                    # token may be incomplete
                    if not stack:
                        # top-level atom: only complete if followed by a delimiter
                        return None
                    return None
                item = _atom(s[i:j])
                i = j
            if not stack:
                self.buf = s[i:]
                return item, s[start:i]
            stack[-1].append(item)
        return None


def parse_all(text):
    r = Reader()
    r.feed(text + "\n")
    out = []
    while True:
        x = r.next()
        if x is None:
            break
        out.append(x[0])
    if r.pending_garbage():
        raise SexprError("trailing incomplete input: %r" % r.buf[:40])
    return out


def show(x):
    if isinstance(x, list):
        return "(" + " ".join(show(y) for y in x) + ")"
    return repr(x)
