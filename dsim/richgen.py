"""Generator of rich blueprints (Bool, Int, Real, BV, String, arrays, UF,
quantifiers) for the environment-history checks (C04 / C14 / C15), where results
are compared structurally and never evaluated."""
from dsim import bp

BOOL, INT, REAL, STRING = bp.BOOL, bp.INT, bp.REAL, bp.STRING


class RichCtx(object):
    def __init__(self, symbols, quant=True, depth_bv=2):
        self.symbols = dict(symbols)        # name -> sort (incl. Array / Fun sorts)
        self.quant = quant
        self.bound = 0
        self.bpctx = bp.GenCtx({n: s for n, s in symbols.items()
                                if s == BOOL or bp.is_bv(s)}, bv=True)

    def syms_of(self, sort):
        k = bp.sort_key(sort)
        return [n for n, s in self.symbols.items() if bp.sort_key(s) == k]

    def funs(self, ret):
        k = bp.sort_key(ret)
        return [(n, s) for n, s in self.symbols.items() if bp.is_fun(s) and bp.sort_key(s[2]) == k]

    def arrays(self, elem=None):
        return [(n, s) for n, s in self.symbols.items()
                if bp.is_array(s) and (elem is None or bp.sort_key(s[2]) == bp.sort_key(elem))]

    def bv_widths(self):
        return self.bpctx.bv_widths()


def default_symbols(tape):
    """a symbol table with every kind of sort; sizes drawn from the tape"""
    syms = {"p": BOOL, "q": BOOL, "r": BOOL, "x": INT, "y": INT, "z": INT, "u": REAL, "v": REAL,
            "s": STRING, "t": STRING}
    # user symbols whose names look like fresh-symbol names (FV%d is the default template)
    syms["FV0"] = BOOL
    syms["FV1"] = INT
    syms["x1"] = INT
    w = tape.rint(1, 4, "rich.bvw")
    syms["b0"] = bp.BV(w)
    syms["b1"] = bp.BV(w)
    syms["c0"] = bp.BV(tape.rint(1, 8, "rich.bvw2"))
    syms["A"] = bp.ARRAY(INT, INT)
    syms["B"] = bp.ARRAY(INT, INT)
    syms["M"] = bp.ARRAY(bp.BV(w), bp.BV(w))
    syms["f"] = ["Fun", [INT], INT]
    syms["g"] = ["Fun", [INT, INT], BOOL]
    syms["h"] = ["Fun", [REAL], REAL]
    syms["P"] = ["Fun", [INT, BOOL], BOOL]
    syms["Bm"] = bp.ARRAY(INT, BOOL)
    # a declared (custom) sort: symbols, an array and a function over it
    U = ["S", "U"]
    syms["cu0"] = U
    syms["cu1"] = U
    syms["hU"] = ["Fun", [U, INT], U]
    syms["AU"] = bp.ARRAY(INT, U)
    return syms


def leaf(tape, sort, ctx):
    syms = ctx.syms_of(sort)
    if syms and (bp.is_array(sort) or tape.chance(3, 4, "rich.leaf.sym?")):
        return ["sym", tape.choice(syms, "rich.leaf.sym"), sort]
    if sort == BOOL:
        return ["bool", bool(tape.draw(2, "rich.bool"))]
    if sort == INT:
        return ["int", tape.rint(-2, 5, "rich.int")]
    if sort == REAL:
        return ["real", tape.rint(-3, 7, "rich.real.n"), tape.choice([1, 2, 3], "rich.real.d")]
    if sort == STRING:
        return ["str", tape.choice(["", "a", "ab", "b c"], "rich.str")]
    if bp.is_bv(sort):
        return ["bv", tape.draw(1 << sort[1], "rich.bv"), sort[1]]
    if bp.is_array(sort):
        return ["arrayval", sort[1], leaf(tape, sort[2], ctx), []]
    if bp.is_usort(sort) and syms:
        return ["sym", tape.choice(syms, "rich.leaf.usym"), sort]
    raise ValueError(sort)


def gen(tape, sort, depth, ctx):
    if depth <= 0 or tape.chance(1, 6, "rich.leaf?"):
        return leaf(tape, sort, ctx)
    d = depth - 1
    if sort == BOOL:
        kinds = [(4, "conn"), (1, "ite"), (2, "intrel"), (1, "realrel"), (1, "eq"), (1, "str"), (1, "uf"),
                 (1, "arr")]
        if ctx.bv_widths():
            kinds.append((2, "bv"))
        if ctx.quant and ctx.bound < 2:
            kinds.append((1, "quant"))
        k = tape.weighted(kinds, "rich.bool.kind")
        if k == "conn":
            o = tape.choice(bp.BOOL_CONNECTIVES, "rich.conn")
            if o == "not":
                return ["not", gen(tape, BOOL, d, ctx)]
            if o in ("and", "or"):
                return [o] + [gen(tape, BOOL, d, ctx) for _ in range(tape.rint(2, 3, "rich.nary"))]
            return [o, gen(tape, BOOL, d, ctx), gen(tape, BOOL, d, ctx)]
        if k == "ite":
            return ["ite", gen(tape, BOOL, d, ctx), gen(tape, BOOL, d, ctx), gen(tape, BOOL, d, ctx)]
        if k == "intrel":
            return [tape.choice(bp.INT_REL + ("=",), "rich.intrel"), gen(tape, INT, d, ctx), gen(tape, INT, d, ctx)]
        if k == "realrel":
            return [tape.choice(bp.INT_REL + ("=",), "rich.realrel"), gen(tape, REAL, d, ctx), gen(tape, REAL, d, ctx)]
        if k == "eq":
            srt = tape.choice([BOOL, INT, REAL, STRING, ["S", "U"]], "rich.eq.sort")
            if bp.is_usort(srt) and not ctx.syms_of(srt):
                srt = INT
            return ["=", gen(tape, srt, d, ctx), gen(tape, srt, d, ctx)]
        if k == "str":
            return [tape.choice(["str.contains", "str.prefixof", "str.suffixof"], "rich.strpred"),
                    gen(tape, STRING, d, ctx), gen(tape, STRING, d, ctx)]
        if k == "uf":
            fs = ctx.funs(BOOL)
            if fs:
                n, s = tape.choice(fs, "rich.uf")
                return ["app", n, s[1], s[2]] + [gen(tape, a, d, ctx) for a in s[1]]
            return leaf(tape, BOOL, ctx)
        if k == "arr":
            arrs = ctx.arrays()
            if arrs:
                n, s = tape.choice(arrs, "rich.arr")
                return ["=", ["select", gen(tape, s, d, ctx), gen(tape, s[1], d, ctx)], gen(tape, s[2], d, ctx)]
            return leaf(tape, BOOL, ctx)
        if k == "bv":
            return bp.gen_term(tape, BOOL, depth, ctx.bpctx)
        if k == "quant":
            qs = tape.choice([BOOL, INT, REAL], "rich.q.sort")
            name = "k%s%d" % (qs[0].lower(), ctx.bound)
            saved = dict(ctx.symbols)
            ctx.symbols[name] = qs
            ctx.bound += 1
            body = gen(tape, BOOL, d, ctx)
            # make sure the bound variable occurs
            body = ["or", body, ["=", ["sym", name, qs], leaf(tape, qs, ctx)]] if tape.chance(1, 2, "rich.q.use") else body
            ctx.bound -= 1
            ctx.symbols = saved
            return [tape.choice(["forall", "exists"], "rich.q"), [[name, qs]], body]
    if sort == INT:
        k = tape.weighted([(3, "+"), (2, "-"), (2, "*"), (1, "ite"), (1, "uf"), (1, "sel"), (1, "len")], "rich.int.kind")
        if k == "+":
            return ["+"] + [gen(tape, INT, d, ctx) for _ in range(tape.rint(2, 3, "rich.nary"))]
        if k == "-":
            return ["-", gen(tape, INT, d, ctx), gen(tape, INT, d, ctx)]
        if k == "*":
            return ["*", ["int", tape.rint(-2, 3, "rich.coef")], gen(tape, INT, d, ctx)]
        if k == "ite":
            return ["ite", gen(tape, BOOL, d, ctx), gen(tape, INT, d, ctx), gen(tape, INT, d, ctx)]
        if k == "uf":
            fs = ctx.funs(INT)
            if fs:
                n, s = tape.choice(fs, "rich.uf")
                return ["app", n, s[1], s[2]] + [gen(tape, a, d, ctx) for a in s[1]]
        if k == "sel":
            arrs = ctx.arrays(INT)
            if arrs:
                n, s = tape.choice(arrs, "rich.arr")
                return ["select", gen(tape, s, d, ctx), gen(tape, s[1], d, ctx)]
        if k == "len":
            return ["str.len", gen(tape, STRING, d, ctx)]
        return leaf(tape, INT, ctx)
    if sort == REAL:
        k = tape.weighted([(3, "+"), (2, "-"), (2, "*"), (1, "/"), (1, "ite"), (1, "toreal"), (1, "uf")], "rich.real.kind")
        if k == "+":
            return ["+"] + [gen(tape, REAL, d, ctx) for _ in range(tape.rint(2, 3, "rich.nary"))]
        if k == "-":
            return ["-", gen(tape, REAL, d, ctx), gen(tape, REAL, d, ctx)]
        if k == "*":
            return ["*", ["real", tape.rint(-2, 3, "rich.coef"), tape.choice([1, 2], "rich.coef.d")], gen(tape, REAL, d, ctx)]
        if k == "/":
            return ["/", gen(tape, REAL, d, ctx), ["real", tape.choice([2, 3, -4], "rich.div"), 1]]
        if k == "ite":
            return ["ite", gen(tape, BOOL, d, ctx), gen(tape, REAL, d, ctx), gen(tape, REAL, d, ctx)]
        if k == "toreal":
            return ["toreal", gen(tape, INT, d, ctx)]
        fs = ctx.funs(REAL)
        if fs:
            n, s = tape.choice(fs, "rich.uf")
            return ["app", n, s[1], s[2]] + [gen(tape, a, d, ctx) for a in s[1]]
        return leaf(tape, REAL, ctx)
    if sort == STRING:
        if tape.chance(1, 2, "rich.str.concat"):
            return ["str.++", gen(tape, STRING, d, ctx), gen(tape, STRING, d, ctx)]
        return leaf(tape, STRING, ctx)
    if bp.is_bv(sort):
        return bp.gen_term(tape, sort, depth, ctx.bpctx)
    if bp.is_usort(sort):
        k = tape.weighted([(3, "leaf"), (1, "uf"), (1, "sel"), (1, "ite")], "rich.usort.kind")
        if k == "uf":
            fs = ctx.funs(sort)
            if fs:
                n, s = tape.choice(fs, "rich.uf")
                return ["app", n, s[1], s[2]] + [gen(tape, a, d, ctx) for a in s[1]]
        if k == "sel":
            arrs = ctx.arrays(sort)
            if arrs:
                n, s = tape.choice(arrs, "rich.arr")
                return ["select", ["sym", n, s], gen(tape, s[1], d, ctx)]
        if k == "ite":
            return ["ite", gen(tape, BOOL, d, ctx), leaf(tape, sort, ctx), leaf(tape, sort, ctx)]
        return leaf(tape, sort, ctx)
    if bp.is_array(sort):
        k = tape.weighted([(2, "sym"), (2, "store"), (1, "val")], "rich.arr.kind")
        if k == "store":
            return ["store", gen(tape, sort, d, ctx), gen(tape, sort[1], d, ctx), gen(tape, sort[2], d, ctx)]
        if k == "val" and sort[1] in (INT,) or (k == "val" and bp.is_bv(sort[1])):
            n = tape.rint(0, 3, "rich.arrayval.n")
            pairs = []
            seen = set()
            for _ in range(n):
                kk = leaf_const(tape, sort[1])
                if repr(kk) in seen:
                    continue
                seen.add(repr(kk))
                pairs.append([kk, gen(tape, sort[2], 0, ctx)])
            dflt = leaf(tape, sort[2], ctx) if (bp.is_array(sort[2]) or bp.is_usort(sort[2])) else leaf_const(tape, sort[2])
            return ["arrayval", sort[1], dflt, pairs]
        return leaf(tape, sort, ctx)
    raise ValueError("richgen: %r" % (sort,))


def leaf_const(tape, sort):
    if sort == BOOL:
        return ["bool", bool(tape.draw(2, "rich.cbool"))]
    if sort == INT:
        return ["int", tape.rint(-2, 5, "rich.cint")]
    if sort == REAL:
        return ["real", tape.rint(-3, 7, "rich.creal"), 1]
    if sort == STRING:
        return ["str", "a"]
    if bp.is_bv(sort):
        return ["bv", tape.draw(1 << sort[1], "rich.cbv"), sort[1]]
    raise ValueError(sort)


def subterms(t, acc=None):
    """all sub-terms (pre-order), for picking substitution keys / shared parts"""
    if acc is None:
        acc = []
    acc.append(t)
    for a in bp.args_of(t):
        subterms(a, acc)
    return acc


def has_quant(t):
    return any(x[0] in bp.QUANT for x in subterms(t))
