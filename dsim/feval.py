"""Independent evaluator over pySMT FNodes.

Uses only structural accessors (node_type, args, constant_value, bv_width,
extract bounds, rotation / extension steps, symbol name).  Independent of
pySMT's simplifier, substituter and printers.  Semantics follow SMT-LIB
(same helper functions as the blueprint evaluator).

Values: bool, int, Fraction; bit-vectors as unsigned ints.
Iterative post-order walk with a memo (DAG-safe, no recursion).

Two front ends share one per-node semantics table:
  evaluate(formula, env)           one assignment
  VecEval(columns).column(formula) all assignments of a fixed table at once
"""
from fractions import Fraction
import pysmt.operators as op
from dsim.bp import _signed, _mask, _udiv, _urem, _neg, _sdiv, _srem


class EvalError(Exception):
    pass


def _times(*a):
    r = 1
    for x in a:
        r = r * x
    return r


def node_fn(f):
    """python function computing the node's value from its arguments' values
    (None for symbols)"""
    nt = f.node_type()
    if nt == op.SYMBOL:
        return None
    if nt in (op.BOOL_CONSTANT,):
        v = bool(f.constant_value())
        return lambda: v
    if nt in (op.INT_CONSTANT, op.BV_CONSTANT):
        v = int(f.constant_value())
        return lambda: v
    if nt == op.REAL_CONSTANT:
        v = Fraction(f.constant_value())
        return lambda: v
    if nt == op.AND:
        return lambda *a: all(a)
    if nt == op.OR:
        return lambda *a: any(a)
    if nt == op.NOT:
        return lambda x: not x
    if nt == op.IMPLIES:
        return lambda x, y: (not x) or y
    if nt == op.IFF:
        return lambda x, y: x == y
    if nt == op.ITE:
        return lambda c, x, y: x if c else y
    if nt == op.EQUALS:
        return lambda x, y: x == y
    if nt == op.LE:
        return lambda x, y: x <= y
    if nt == op.LT:
        return lambda x, y: x < y
    if nt == op.PLUS:
        return lambda *a: sum(a)
    if nt == op.MINUS:
        return lambda x, y: x - y
    if nt == op.TIMES:
        return _times
    if nt == op.TOREAL:
        return lambda x: Fraction(x)
    if nt == op.BV_TONATURAL:
        return lambda x: int(x)
    if nt == op.BV_ULT:
        return lambda x, y: x < y
    if nt == op.BV_ULE:
        return lambda x, y: x <= y
    if nt in (op.BV_SLT, op.BV_SLE):
        w = f.arg(0).bv_width()
        if nt == op.BV_SLT:
            return lambda x, y: _signed(x, w) < _signed(y, w)
        return lambda x, y: _signed(x, w) <= _signed(y, w)
    if nt == op.BV_COMP:
        return lambda x, y: 1 if x == y else 0
    if nt == op.BV_CONCAT:
        w1 = f.arg(1).bv_width()
        return lambda x, y: (x << w1) | y
    if nt in op.BV_OPERATORS:
        w = f.bv_width()
        m = _mask(w)
        if nt == op.BV_NOT:
            return lambda x: (~x) & m
        if nt == op.BV_NEG:
            return lambda x: (-x) & m
        if nt == op.BV_AND:
            return lambda x, y: x & y
        if nt == op.BV_OR:
            return lambda x, y: x | y
        if nt == op.BV_XOR:
            return lambda x, y: x ^ y
        if nt == op.BV_ADD:
            return lambda x, y: (x + y) & m
        if nt == op.BV_SUB:
            return lambda x, y: (x - y) & m
        if nt == op.BV_MUL:
            return lambda x, y: (x * y) & m
        if nt == op.BV_UDIV:
            return lambda x, y: _udiv(x, y, w)
        if nt == op.BV_UREM:
            return lambda x, y: _urem(x, y, w)
        if nt == op.BV_SDIV:
            return lambda x, y: _sdiv(x, y, w)
        if nt == op.BV_SREM:
            return lambda x, y: _srem(x, y, w)
        if nt == op.BV_LSHL:
            return lambda x, y: 0 if y >= w else (x << y) & m
        if nt == op.BV_LSHR:
            return lambda x, y: 0 if y >= w else x >> y
        if nt == op.BV_ASHR:
            return lambda x, y: (_signed(x, w) >> min(y, w)) & m
        if nt == op.BV_EXTRACT:
            lo, hi = f.bv_extract_start(), f.bv_extract_end()
            mm = _mask(hi - lo + 1)
            return lambda x: (x >> lo) & mm
        if nt == op.BV_ZEXT:
            return lambda x: x
        if nt == op.BV_SEXT:
            w0 = f.arg(0).bv_width()
            return lambda x: _signed(x, w0) & m
        if nt in (op.BV_ROL, op.BV_ROR):
            k = f.bv_rotation_step() % w
            if nt == op.BV_ROL:
                return lambda v: ((v << k) | (v >> (w - k))) & m
            return lambda v: ((v >> k) | (v << (w - k))) & m
    raise EvalError("unsupported node type %d in %s" % (nt, f))


def _postorder(formula, memo):
    stack = [(formula, False)]
    while stack:
        f, expanded = stack.pop()
        if f in memo:
            continue
        if expanded:
            yield f
        else:
            stack.append((f, True))
            for x in f.args():
                if x not in memo:
                    stack.append((x, False))


def evaluate(formula, env, memo=None):
    """env: symbol name -> python value"""
    if memo is None:
        memo = {}
    for f in _postorder(formula, memo):
        fn = node_fn(f)
        if fn is None:
            try:
                memo[f] = env[f.symbol_name()]
            except KeyError:
                raise EvalError("unassigned symbol %s" % f.symbol_name())
        else:
            memo[f] = fn(*[memo[x] for x in f.args()])
    return memo[formula]


class VecEval(object):
    """Evaluate FNodes over a fixed table of assignments, column-wise.

    columns: symbol name -> list of N python values (row i = i-th assignment).
    The memo persists for the life of the object, so shared sub-terms (an
    optimisation objective appearing in many cuts) are evaluated once."""

    def __init__(self, columns, nrows):
        self.columns = columns
        self.n = nrows
        self.memo = {}

    def column(self, formula):
        memo = self.memo
        if formula in memo:
            return memo[formula]
        for f in _postorder(formula, memo):
            fn = node_fn(f)
            if fn is None:
                try:
                    memo[f] = self.columns[f.symbol_name()]
                except KeyError:
                    raise EvalError("unassigned symbol %s" % f.symbol_name())
            else:
                cols = [memo[x] for x in f.args()]
                if not cols:
                    v = fn()
                    memo[f] = [v] * self.n
                elif len(cols) == 1:
                    memo[f] = [fn(x) for x in cols[0]]
                elif len(cols) == 2:
                    memo[f] = [fn(x, y) for x, y in zip(cols[0], cols[1])]
                else:
                    memo[f] = [fn(*r) for r in zip(*cols)]
        return memo[formula]

    def mask(self, formula):
        """bitmask of the rows where the Boolean formula is true"""
        col = self.column(formula)
        m = 0
        bit = 1
        for v in col:
            if v:
                m |= bit
            bit <<= 1
        return m


def free_symbols(formula):
    """ordered list of symbol FNodes (own traversal; no pysmt oracle)"""
    seen = set()
    out = []
    stack = [formula]
    while stack:
        f = stack.pop()
        if f in seen:
            continue
        seen.add(f)
        if f.node_type() == op.SYMBOL:
            out.append(f)
        elif f.node_type() in (op.FORALL, op.EXISTS):
            raise EvalError("quantifier")
        else:
            stack.extend(reversed(f.args()))
    return out


def py_to_const(mgr, v, typ):
    """python value -> pysmt constant of pysmt type typ"""
    if typ.is_bool_type():
        return mgr.Bool(bool(v))
    if typ.is_int_type():
        return mgr.Int(int(v))
    if typ.is_real_type():
        return mgr.Real(Fraction(v))
    if typ.is_bv_type():
        return mgr.BV(int(v), typ.width)
    raise EvalError("no constant for type %s" % typ)
