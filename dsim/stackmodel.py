"""Executable reference model of the SMT-LIB 2.6 assertion stack (sec. 4.1.4),
extended with the OptiMathSAT/z3 convention that objectives and soft
assertions live on the stack.

Items are opaque tokens supplied by the caller.  Frames hold ordered events:
    ("assert", tok) | ("goal", tok) | ("soft", group_id, clause_tok, weight_tok)
    | ("decl", name)
"""


class StackError(Exception):
    pass


class StackModel(object):
    def __init__(self):
        self.frames = [[]]

    @property
    def depth(self):
        return len(self.frames) - 1

    def push(self, n=1):
        for _ in range(n):
            self.frames.append([])

    def can_pop(self, n):
        return n <= self.depth

    def pop(self, n=1):
        if n > self.depth:
            raise StackError("pop %d at depth %d" % (n, self.depth))
        for _ in range(n):
            self.frames.pop()

    def reset_assertions(self):
        self.frames = [[]]

    def assert_(self, tok):
        self.frames[-1].append(("assert", tok))

    def add_goal(self, tok):
        self.frames[-1].append(("goal", tok))

    def assert_soft(self, gid, clause, weight):
        self.frames[-1].append(("soft", gid, clause, weight))

    def declare(self, name):
        self.frames[-1].append(("decl", name))

    # -- views --------------------------------------------------------
    def events(self):
        for fr in self.frames:
            for e in fr:
                yield e

    def live_assertions(self):
        return [e[1] for e in self.events() if e[0] == "assert"]

    def live_decls(self):
        return [e[1] for e in self.events() if e[0] == "decl"]

    def live_goals(self):
        """ordered list of ("goal", tok) | ("soft", gid, [(clause, weight)...])"""
        out = []
        groups = {}
        for e in self.events():
            if e[0] == "goal":
                out.append(("goal", e[1]))
            elif e[0] == "soft":
                gid = e[1]
                if gid not in groups:
                    g = ("soft", gid, [])
                    groups[gid] = g
                    out.append(g)
                groups[gid][2].append((e[2], e[3]))
        return out

    def snapshot(self):
        return [list(fr) for fr in self.frames]
