"""Determinism self-test: the same VERIF_SEED must give the same sweep digest
(hash over every run's trace digest or violation signature)
  * twice in fresh interpreters,
  * at different worker counts,
  * under another PYTHONHASHSEED.

usage: python -m dsim.selftest [--runs N] [--props C16,C17,...] [--seeds 0,1]
"""
import argparse
import os
import re
import subprocess
import sys

HERE = os.path.dirname(os.path.dirname(os.path.abspath(__file__)))


def digest(pid, runs, seed, jobs, hashseed):
    env = dict(os.environ, VERIF_SEED=str(seed), PYTHONHASHSEED=str(hashseed))
    env.pop("DSIM_REEXEC", None)
    r = subprocess.run([os.path.join(HERE, "check"), pid, "--runs", str(runs), "--jobs", str(jobs),
                        "--no-evidence", "--budget", "3000"], env=env, capture_output=True, text=True,
                       timeout=3600, cwd=HERE)
    m = re.search(r"sweep_digest=([0-9a-f]+) verdict_digest=([0-9a-f]+)", r.stdout)
    if not m:
        return "ERROR rc=%d %s %s" % (r.returncode, r.stdout[-300:], r.stderr[-300:])
    return m.group(1) if hashseed == 0 else "verdicts:" + m.group(2)


def main():
    ap = argparse.ArgumentParser()
    ap.add_argument("--runs", type=int, default=2000)
    ap.add_argument("--props", default="C04,C14,C15,C16,C17,C18,C19")
    ap.add_argument("--seeds", default="0,7")
    a = ap.parse_args()
    bad = 0
    for pid in a.props.split(","):
        if not os.path.exists(os.path.join(HERE, "props", pid.lower() + ".py")):
            continue
        for seed in [int(x) for x in a.seeds.split(",")]:
            d = [digest(pid, a.runs, seed, 16, 0), digest(pid, a.runs, seed, 16, 0),
                 digest(pid, a.runs, seed, 3, 0)]
            # under another hash seed the raw traces may order hash-keyed collections differently:
            # the per-run verdicts (ok / violation signature) must be identical
            v = [digest(pid, a.runs, seed, 16, 1), digest(pid, a.runs, seed, 16, 2)]
            ok = len(set(d)) == 1 and len(set(v)) == 1 and not d[0].startswith("ERROR") and not v[0].startswith("ERROR")
            d = d + v
            print("%s seed=%d runs=%d: %s  [16 jobs, 16 jobs again, 3 jobs | verdicts under PYTHONHASHSEED=1, 2] %s" %
                  (pid, seed, a.runs, "DETERMINISTIC" if ok else "DIVERGED", d))
            sys.stdout.flush()
            if not ok:
                bad += 1
    return 1 if bad else 0


if __name__ == "__main__":
    sys.exit(main())
